"""Virtual-time part of C35 (periodic scheduling threads state, keeps the period and stops).

`run_virtual(part, tier, seed, deadline, shard=0, nshards=1)` enumerates completely

  A. schedule_periodic on VirtualTimeScheduler / TestScheduler / HistoricalScheduler, bare and wrapped in
     CatchScheduler (handler verdict True / False): periods x dispose instant (none, or every instant of
     the grid up to the horizon; disposed from an action scheduled at that instant, or from outside after
     advance_to(instant)) x raise at tick k (none, 1..K) x work done inside the action (none, or
     scheduler.sleep(period/2): the drift correction must keep the ticks at k*period);
  B. reactivex.interval(p) and reactivex.timer(d0, p) on the same schedulers (scheduler given to the factory or
     only to subscribe), subscription disposed at every instant of the grid.

Oracle (reference model = arithmetic): invocation k happens at exactly t0 + k*period (B: value i at
t0 + d0 + i*p) and receives the state returned by invocation k-1; every tick strictly before the dispose
instant happens, none happens after dispose() returned nor at a later instant; a tick due exactly at the
dispose instant is required when the dispose comes from outside after advance_to (which runs everything due
at or before its target, C28) and optional when both are actions of the same instant (rule R3); after the
action raised it is never invoked again (the scheduler is stopped and run on to the horizon to see that).
"""
from __future__ import annotations

import time
from datetime import datetime, timedelta, timezone

from . import core

UTC = timezone.utc
KINDS = ("VirtualTimeScheduler", "TestScheduler", "HistoricalScheduler")
WRAPS = ("bare", "catch-True", "catch-False")


class Boom(Exception):
    pass


class Budget(BaseException):
    pass


def params(tier):
    if tier == "quick":
        return {"periods": (1, 5, 10), "horizon_periods": 4, "raise_ticks": (1, 2, 3), "work": (0, 0.5), "timer_due": (0, 0.5, 1, 2)}
    return {"periods": (1, 2, 5, 10), "horizon_periods": 6, "raise_ticks": (1, 2, 3, 4, 5), "work": (0, 0.25, 0.5), "timer_due": (0, 0.5, 1, 1.5, 2, 3)}


def grid(period, horizon_periods):
    """dispose instants (in units): every integer instant up to horizon_periods*period; half steps for period 1"""
    if period == 1:
        return [x / 2 for x in range(0, 2 * horizon_periods + 1)]
    return list(range(0, period * horizon_periods + 1))


def cases(tier, seed):
    P = params(tier)
    for kind in KINDS:
        for wrap in WRAPS:
            for p in P["periods"]:
                disposes = [None] + [(how, d) for d in grid(p, P["horizon_periods"]) for how in ("in", "out")]
                for disp in disposes:
                    for rk in (None,) + P["raise_ticks"]:
                        for work in P["work"]:
                            yield {"part": "A", "kind": kind, "wrap": wrap, "period": p, "dispose": disp, "raise_at": rk, "work": work, "seed": seed, "tier": tier}
    for kind in KINDS:
        for wrap in ("bare", "catch-True"):
            for via in ("factory", "subscribe"):
                for p in P["periods"]:
                    sources = [("interval", None)] + [("timer", f) for f in P["timer_due"]]
                    for (src, f) in sources:
                        disposes = [(how, d) for d in grid(p, P["horizon_periods"]) for how in ("in", "out")]
                        for disp in disposes:
                            yield {"part": "B", "kind": kind, "wrap": wrap, "via": via, "period": p, "source": src, "due_factor": f, "dispose": disp, "seed": seed, "tier": tier}


# ------------------------------------------------------------------ execution

class Cfg:
    def __init__(self, kind, seed):
        self.kind = kind
        self.unit = (1.0, 0.5, 3.0)[seed % 3]
        self.base_f = (0.0, 200.0, 1000.0)[seed % 3]
        self.base_d = (None, datetime(2010, 10, 10, 10, 10, 10, tzinfo=UTC), datetime(1999, 12, 31, 23, 59, 55, tzinfo=UTC))[seed % 3]
        self.float_times = kind != "HistoricalScheduler" or seed % 2 == 1
        self.s0 = (0, 10, -3)[seed % 3]

    def make(self):
        from reactivex.scheduler import HistoricalScheduler, VirtualTimeScheduler
        from reactivex.testing import TestScheduler

        if self.kind == "VirtualTimeScheduler":
            return VirtualTimeScheduler(self.base_f)
        if self.kind == "TestScheduler":
            return TestScheduler()
        return HistoricalScheduler(self.base_d)

    def rel(self, units):
        s = units * self.unit
        return s if self.float_times else timedelta(seconds=s)


def execute(case):
    """Run one case on the real library.  Returns observations."""
    import reactivex
    from reactivex.scheduler import CatchScheduler

    cfg = Cfg(case["kind"], case["seed"])
    inner = cfg.make()
    t0 = inner.now
    P = params(case["tier"])
    p = case["period"]
    H = p * (P["horizon_periods"] + 1)
    obs = {"ticks": [], "dispose_step": None, "dispose_time": None, "escaped": [], "handler_calls": [], "injected": [], "completed": [], "errors": []}
    step = [0]

    def tick_step():
        step[0] += 1
        return step[0]

    def now_units():
        return (inner.now - t0).total_seconds() / cfg.unit

    def abs_time(units):
        dt = t0 + timedelta(seconds=units * cfg.unit)
        return inner.to_seconds(dt) if cfg.kind != "HistoricalScheduler" else dt

    def handler(ex):
        obs["handler_calls"].append(ex)
        return case["wrap"] == "catch-True"

    sched = inner if case["wrap"] == "bare" else CatchScheduler(inner, handler)
    holder: list = []

    def do_dispose(*_):
        holder[0].dispose()
        obs["dispose_step"] = tick_step()
        obs["dispose_time"] = now_units()

    disp = case["dispose"]
    if disp is not None and disp[0] == "in":
        # scheduled before the periodic work exists: at a tie with a tick the order is the scheduler's business
        inner.schedule_absolute(abs_time(disp[1]), do_dispose)

    if case["part"] == "A":
        work = case["work"] * p
        calls = [0]

        def action(state):
            calls[0] += 1
            if calls[0] > 500:
                raise Budget()
            obs["ticks"].append((tick_step(), now_units(), state, calls[0]))
            if work:
                inner.sleep(cfg.rel(work))
            if case["raise_at"] == calls[0]:
                ex = Boom(f"tick{calls[0]}")
                obs["injected"].append(ex)
                raise ex
            return (state, calls[0])

        holder.append(sched.schedule_periodic(cfg.rel(p), action, cfg.s0))
    else:
        if case["source"] == "interval":
            build = lambda s: reactivex.interval(cfg.rel(p), scheduler=s)
        else:
            build = lambda s: reactivex.timer(cfg.rel(case["due_factor"] * p), cfg.rel(p), scheduler=s)

        def on_next(v):
            if len(obs["ticks"]) > 500:
                raise Budget()
            obs["ticks"].append((tick_step(), now_units(), v, len(obs["ticks"]) + 1))

        kw = dict(on_next=on_next, on_error=lambda e: obs["errors"].append(e), on_completed=lambda: obs["completed"].append(now_units()))
        if case["via"] == "factory":
            holder.append(build(sched).subscribe(**kw))
        else:
            holder.append(build(None).subscribe(scheduler=sched, **kw))

    def advance(units):
        """advance_to(t0+units), surviving (and recording) exceptions that escape from the run"""
        for _ in range(4):
            if now_units() >= units:
                return
            try:
                inner.advance_to(abs_time(units))
                return
            except Exception as e:
                obs["escaped"].append((e, now_units()))
                inner.stop()  # an exception leaves the scheduler enabled; reset so that the run can go on

    if disp is not None and disp[0] == "out":
        advance(disp[1])
        do_dispose()
    advance(H)
    obs["end"] = now_units()
    return obs


def judge(case):
    """-> (problems [(class, text)], nontrivial, outcome, obs)"""
    obs = execute(case)
    P = params(case["tier"])
    cfg = Cfg(case["kind"], case["seed"])
    p = case["period"]
    H = p * (P["horizon_periods"] + 1)
    disp = case["dispose"]
    problems = []
    ticks = obs["ticks"]
    if case["part"] == "A":
        first, stop_k = p, case["raise_at"]
        exp_time = lambda k: k * p
    else:
        first = p if case["source"] == "interval" else case["due_factor"] * p
        stop_k = None
        exp_time = lambda k: first + (k - 1) * p
    # which ticks must / may / must not happen
    required, optional = [], []
    k = 1
    while exp_time(k) <= H:
        t = exp_time(k)
        if stop_k is not None and k > stop_k:
            break
        if disp is None or t < disp[1]:
            required.append(k)
        elif t == disp[1]:
            # from outside: advance_to(d) ran everything due at or before d (unless d is the start instant: a zero-length
            # advance runs nothing); as two actions of one instant: either order (R3)
            (required if (disp[0] == "out" and disp[1] > 0) else optional).append(k)
        k += 1
    got_k = [c for (_, _, _, c) in ticks]
    if got_k != list(range(1, len(got_k) + 1)):
        raise RuntimeError("harness: tick numbering")
    n = len(ticks)
    # 1. times and state threading of what did happen
    state = cfg.s0
    for (st, t, s, c) in ticks:
        if t != exp_time(c):
            problems.append(("tick-time", f"invocation {c} at t0+{t}, expected t0+{exp_time(c)} (period {p})"))
            break
        if case["part"] == "A":
            if s != state or type(s) is not type(state):
                problems.append(("state-not-threaded", f"invocation {c} received state {s!r}, the previous invocation returned {state!r}"))
                break
            state = (s, c)
        else:
            if s != c - 1 or type(s) is not int:
                problems.append(("wrong-value", f"emission {c} is {s!r}, expected {c - 1}"))
                break
    # 2. none after dispose returned / after the dispose instant
    if obs["dispose_step"] is not None:
        late = [(st, t, c) for (st, t, _, c) in ticks if st > obs["dispose_step"]]
        if late:
            problems.append(("tick-after-dispose", f"invocation {late[0][2]} at t0+{late[0][1]} after dispose() had returned (at t0+{obs['dispose_time']})"))
    # 3. after a raise
    if stop_k is not None and n > stop_k:
        problems.append(("tick-after-raise", f"action invoked again (invocation {stop_k + 1}) after it raised in invocation {stop_k}"))
    # 4. completeness: required ticks happened, nothing beyond required+optional
    if not problems:
        allowed = len(required) + len(optional)
        if n < len(required):
            problems.append(("tick-missing", f"{n} invocations, expected {len(required)} (period {p}, dispose {disp}, raise at {stop_k})"))
        elif n > allowed:
            problems.append(("tick-extra", f"{n} invocations, expected at most {allowed} (period {p}, dispose {disp}, raise at {stop_k})"))
    # 5. exceptions: only the injected one may escape, and only where nobody swallows it
    for (e, t) in obs["escaped"]:
        if not obs["injected"] or e is not obs["injected"][0]:
            problems.append(("unexpected-exception", f"{e!r} escaped from advance_to at t0+{t}"))
    if obs["injected"]:
        if case["wrap"] == "catch-True" and obs["escaped"]:
            problems.append(("swallowed-but-escaped", "CatchScheduler handler returned True but the exception escaped"))
        if case["wrap"] != "bare" and len(obs["handler_calls"]) != 1:
            problems.append(("handler-calls", f"CatchScheduler handler called {len(obs['handler_calls'])}x for one raise"))
    if obs["errors"] or obs["completed"]:
        problems.append(("terminated", f"interval/timer terminated: errors={obs['errors']!r} completed={obs['completed']!r}"))
    nontrivial = n >= 2 or (n >= 1 and (disp is not None or stop_k is not None))
    outcome = (n, tuple(t for (_, t, _, _) in ticks), len(obs["escaped"]), len(obs["handler_calls"]), obs["dispose_time"])
    return problems, nontrivial, outcome, obs


def case_key(case):
    return tuple((k, repr(v)) for k, v in sorted(case.items()) if k not in ("tier", "seed"))


def signature(case, problem):
    if case["part"] == "A":
        what = "schedule_periodic"
        cfg = case["wrap"]
    else:
        what = case["source"]
        cfg = case["wrap"]
    return f"periodic-vt|{what}|{cfg}|{problem[0]}"


def describe(case):
    c = dict(case)
    c.pop("tier", None)
    c.pop("seed", None)
    return ", ".join(f"{k}={v}" for k, v in c.items())


def run_virtual(part: core.Part, tier, seed, deadline, shard=0, nshards=1):
    """Enumerate the virtual-time part of C35 into `part` (every case when nshards == 1)."""
    for case in core.shard_iter(cases(tier, seed), shard, nshards):
        if part.evals % 128 == 0 and time.time() > deadline:
            part.complete = False
            return
        problems, nontrivial, outcome, obs = judge(case)
        part.case(
            case_key(case),
            nontrivial,
            outcome=outcome,
            sample={"case": case, "invocations": [(t, repr(s)) for (_, t, s, _) in obs["ticks"]], "dispose_time": obs["dispose_time"], "escaped": len(obs["escaped"])} if nontrivial and case["dispose"] is not None else None,
        )
        part.count("vt:" + case["part"])
        part.count("vt_invocations", len(obs["ticks"]))
        for pr in problems:
            part.violation(signature(case, pr), f"{describe(case)}: {pr[1]}", dict(case, engine="virtual"))


def bounds_virtual(tier):
    P = params(tier)
    return {
        "vt_schedulers": list(KINDS),
        "vt_wrappers": list(WRAPS),
        "vt_periods": list(P["periods"]),
        "vt_dispose_instants": "every integer instant (half steps for period 1) in [0, %d periods], from an action at that instant and from outside after advance_to" % P["horizon_periods"],
        "vt_raise_at_tick": list(P["raise_ticks"]),
        "vt_work_inside_action_fraction_of_period": list(P["work"]),
        "vt_timer_due_fraction_of_period": list(P["timer_due"]),
    }


def replay_virtual(case):
    case = dict(case)
    case.pop("engine", None)
    if case.get("dispose") is not None:
        case["dispose"] = tuple(case["dispose"])
    problems, _, outcome, obs = judge(case)
    print("case:", describe(case))
    print("invocations (step, t-t0, state/value, k):", obs["ticks"])
    print("dispose at:", obs["dispose_time"], "escaped:", obs["escaped"], "handler calls:", len(obs["handler_calls"]))
    return [{"signature": signature(case, p), "what": p[1], "detail": None} for p in problems]
