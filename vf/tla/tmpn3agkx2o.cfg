CONSTANTS NS = 2
          K = 2
          MaxT = 3
          ExitIfEmpty = FALSE
INIT Init
NEXT Next
INVARIANTS AtMostOnce ImmediateFIFO NoLostWakeup WaitCoversEarliest OneLoopThread
