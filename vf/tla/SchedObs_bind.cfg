CONSTANTS P = 1
          N = 4
          F = 1
INIT Init
NEXT Next
INVARIANTS InOrderOnce NoDeliveryAfterFault NothingStranded NoPendingRunCancelled
