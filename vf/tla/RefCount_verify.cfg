CONSTANTS T = 3
          D = 3
INIT Init
NEXT Next
INVARIANTS TypeOK AtMostOnce OnlyAfterAll DecidedOnlyAfterAll CountIsLive ReleasedAtQuiescence
