CONSTANTS P = 2
          N = 4
          F = 1
INIT Init
NEXT Next
INVARIANTS InOrderOnce NoDeliveryAfterFault NothingStranded NoPendingRunCancelled
