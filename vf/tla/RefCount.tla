---------------------------- MODULE RefCount ----------------------------
(* Critical-section-granularity model of reactivex.disposable.RefCountDisposable.
   One action per lock-protected block and one per unlocked read performed outside a lock.
   Threads perform, in any order and any number of times: primary dispose, get a dependent,
   dispose a dependent (any dependent handed out so far, also twice).
   Labels carry the thread so that traces of the real code (projected on lock acquisitions per
   function and on underlying.dispose()) can be checked for inclusion in the state graph. *)
EXTENDS Naturals, FiniteSets
CONSTANTS T, D            \* number of threads, maximal number of dependents handed out
VARIABLES primary,        \* is_primary_disposed
          isDisposed,     \* is_disposed
          count,          \* count
          under,          \* how often underlying.dispose() was called
          dep,            \* dep[d] in {"unused","live","cleared","inert"}: InnerDisposable.parent set / cleared / inert Disposable
          pc, loc         \* per-thread program counter and local value

vars == <<primary, isDisposed, count, under, dep, pc, loc>>
Threads == 1..T
Deps == 1..D

Init == /\ primary = FALSE /\ isDisposed = FALSE /\ count = 0 /\ under = 0
        /\ dep = [d \in Deps |-> "unused"]
        /\ pc = [t \in Threads |-> "idle"] /\ loc = [t \in Threads |-> 0]

\* ---- primary dispose ------------------------------------------------------
PDStart(t) == /\ pc[t] = "idle"                       \* unlocked pre-check `if self.is_disposed: return`
              /\ pc' = [pc EXCEPT ![t] = IF isDisposed THEN "idle" ELSE "pd_lock"]
              /\ UNCHANGED <<primary, isDisposed, count, under, dep, loc>>
PDLock(t) == /\ pc[t] = "pd_lock"                     \* with self.lock: ...
             /\ IF ~primary
                  THEN /\ primary' = TRUE
                       /\ IF count = 0
                            THEN /\ isDisposed' = TRUE /\ loc' = [loc EXCEPT ![t] = 1]
                            ELSE /\ isDisposed' = isDisposed /\ loc' = [loc EXCEPT ![t] = 0]
                  ELSE /\ UNCHANGED <<primary, isDisposed>> /\ loc' = [loc EXCEPT ![t] = 0]
             /\ pc' = [pc EXCEPT ![t] = IF loc'[t] = 1 THEN "ud" ELSE "idle"]
             /\ UNCHANGED <<count, under, dep>>
\* ---- underlying.dispose() (after either locked block decided it) ------------
UD(t) == /\ pc[t] = "ud"
         /\ under' = under + 1
         /\ pc' = [pc EXCEPT ![t] = "idle"] /\ loc' = [loc EXCEPT ![t] = 0]
         /\ UNCHANGED <<primary, isDisposed, count, dep>>
\* ---- get a dependent (the whole property getter is one locked block) -------
Get(t) == /\ pc[t] = "idle"
          /\ \E d \in Deps :
               /\ dep[d] = "unused" /\ \A e \in Deps : e < d => dep[e] # "unused"
               /\ IF isDisposed
                    THEN /\ dep' = [dep EXCEPT ![d] = "inert"] /\ count' = count
                    ELSE /\ dep' = [dep EXCEPT ![d] = "live"] /\ count' = count + 1
          /\ UNCHANGED <<primary, isDisposed, under, pc, loc>>
\* ---- dispose a dependent ---------------------------------------------------
InnerLock(t) == /\ pc[t] = "idle"                      \* with self.lock: parent = self.parent; self.parent = None
                /\ \E d \in Deps :
                     /\ dep[d] \in {"live", "cleared"}
                     /\ IF dep[d] = "live"
                          THEN /\ dep' = [dep EXCEPT ![d] = "cleared"] /\ pc' = [pc EXCEPT ![t] = "rel_pre"]
                          ELSE /\ dep' = dep /\ pc' = pc
                /\ UNCHANGED <<primary, isDisposed, count, under, loc>>
RelPre(t) == /\ pc[t] = "rel_pre"                      \* unlocked pre-check in release()
             /\ pc' = [pc EXCEPT ![t] = IF isDisposed THEN "idle" ELSE "rel_lock"]
             /\ UNCHANGED <<primary, isDisposed, count, under, dep, loc>>
RelLock(t) == /\ pc[t] = "rel_lock"                    \* with self.lock: count -= 1; ...
              /\ count > 0
              /\ count' = count - 1
              /\ IF count' = 0 /\ primary
                   THEN /\ isDisposed' = TRUE /\ pc' = [pc EXCEPT ![t] = "ud"]
                   ELSE /\ isDisposed' = isDisposed /\ pc' = [pc EXCEPT ![t] = "idle"]
              /\ UNCHANGED <<primary, under, dep, loc>>

Next == \/ \E t \in Threads : PDStart(t) \/ PDLock(t) \/ UD(t) \/ Get(t) \/ InnerLock(t) \/ RelPre(t) \/ RelLock(t)

Spec == Init /\ [][Next]_vars

\* ---- invariants ------------------------------------------------------------
TypeOK == count \in 0..D /\ under \in 0..2
AtMostOnce == under <= 1
OnlyAfterAll == under >= 1 => (primary /\ \A d \in Deps : dep[d] # "live")
DecidedOnlyAfterAll == isDisposed => (primary /\ \A d \in Deps : dep[d] # "live")
CountIsLive == count >= Cardinality({d \in Deps : dep[d] = "live"})
Quiescent == \A t \in Threads : pc[t] = "idle"
ReleasedAtQuiescence == (Quiescent /\ primary /\ \A d \in Deps : dep[d] # "live") => under = 1
=============================================================================
