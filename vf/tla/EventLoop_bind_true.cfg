CONSTANTS NS = 1
          K = 3
          MaxT = 2
          ExitIfEmpty = TRUE
INIT Init
NEXT Next
INVARIANTS AtMostOnce ImmediateFIFO NoLostWakeup WaitCoversEarliest OneLoopThread
