---------------------------- MODULE SchedObs ----------------------------
(* Critical-section-granularity model of reactivex.observer.ScheduledObserver /
   ObserveOnObserver over a single-threaded scheduler (an event loop).
   Producers 1..P each emit their items in order: unlocked append, then ensure_active
   (locked ownership test, schedule outside the lock, locked epoch-guarded assignment to the
   SerialDisposable).  The loop thread executes scheduled `run` invocations one at a time:
   locked pop-or-release, the work outside the lock (may raise at item F), re-schedule.
   A scheduled run that is disposed before it starts is skipped by the scheduler. *)
EXTENDS Naturals, Sequences, FiniteSets
CONSTANTS P, N, F          \* producers, items per producer, F = 1: any delivery may raise (nondeterministically), F = 0: none does
VARIABLES queue, acquired, faulted, epoch, serial,   \* ScheduledObserver fields (serial = run id held by the SerialDisposable)
          pending, cancelled, nextId,                \* scheduler: scheduled run ids not yet started, disposed ones
          delivered, lenAtFault,                     \* what the downstream observer received; its length when a delivery raised
          ppc, pk, pown, prun, pep,                  \* producer pc / next item / ownership result / scheduled run / epoch
          lpc, lwork                                 \* loop thread pc / popped work item

vars == <<queue, acquired, faulted, epoch, serial, pending, cancelled, nextId, delivered, lenAtFault, ppc, pk, pown, prun, pep, lpc, lwork>>
Prods == 1..P
Item(p, k) == p * 10 + k

Init == /\ queue = <<>> /\ acquired = FALSE /\ faulted = FALSE /\ epoch = 0 /\ serial = 0
        /\ pending = {} /\ cancelled = {} /\ nextId = 1 /\ delivered = <<>> /\ lenAtFault = 0
        /\ ppc = [p \in Prods |-> "append"] /\ pk = [p \in Prods |-> 1] /\ pown = [p \in Prods |-> FALSE]
        /\ prun = [p \in Prods |-> 0] /\ pep = [p \in Prods |-> 0]
        /\ lpc = "idle" /\ lwork = 0

\* ---------------- producer ----------------
QAppend(p) == /\ ppc[p] = "append" /\ pk[p] <= N
             /\ queue' = Append(queue, Item(p, pk[p]))          \* self.queue.append(action) -- no lock
             /\ ppc' = [ppc EXCEPT ![p] = "elock"]
             /\ UNCHANGED <<acquired, faulted, epoch, serial, pending, cancelled, nextId, delivered, lenAtFault, pk, pown, prun, pep, lpc, lwork>>
ELock(p) == /\ ppc[p] = "elock"                                   \* with self.lock: ownership test
            /\ IF ~faulted /\ queue # <<>>
                 THEN /\ pown' = [pown EXCEPT ![p] = ~acquired]
                      /\ acquired' = TRUE
                      /\ IF ~acquired THEN /\ epoch' = epoch + 1 /\ pep' = [pep EXCEPT ![p] = epoch + 1]
                                      ELSE /\ epoch' = epoch /\ pep' = pep
                 ELSE /\ pown' = [pown EXCEPT ![p] = FALSE] /\ UNCHANGED <<acquired, epoch, pep>>
            /\ ppc' = [ppc EXCEPT ![p] = IF pown'[p] THEN "sched" ELSE "next"]
            /\ UNCHANGED <<queue, faulted, serial, pending, cancelled, nextId, delivered, lenAtFault, pk, prun, lpc, lwork>>
Sched(p) == /\ ppc[p] = "sched"                                   \* self.scheduler.schedule(self.run)
            /\ pending' = pending \cup {nextId} /\ prun' = [prun EXCEPT ![p] = nextId] /\ nextId' = nextId + 1
            /\ ppc' = [ppc EXCEPT ![p] = "assign"]
            /\ UNCHANGED <<queue, acquired, faulted, epoch, serial, cancelled, delivered, lenAtFault, pk, pown, pep, lpc, lwork>>
Assign(p) == /\ ppc[p] = "assign"                                 \* with self.lock: if epoch == self._epoch: serial = d (disposes the old one)
             /\ IF pep[p] = epoch
                  THEN /\ serial' = prun[p] /\ cancelled' = IF serial # 0 THEN cancelled \cup {serial} ELSE cancelled
                  ELSE /\ UNCHANGED <<serial, cancelled>>
             /\ ppc' = [ppc EXCEPT ![p] = "next"]
             /\ UNCHANGED <<queue, acquired, faulted, epoch, pending, nextId, delivered, lenAtFault, pk, pown, prun, pep, lpc, lwork>>
NextItem(p) == /\ ppc[p] = "next"
               /\ pk' = [pk EXCEPT ![p] = pk[p] + 1]
               /\ ppc' = [ppc EXCEPT ![p] = IF pk[p] + 1 <= N THEN "append" ELSE "done"]
               /\ UNCHANGED <<queue, acquired, faulted, epoch, serial, pending, cancelled, nextId, delivered, lenAtFault, pown, prun, pep, lpc, lwork>>

\* ---------------- loop thread ----------------
Take == /\ lpc = "idle" /\ pending # {}                           \* the scheduler starts the oldest scheduled run (FIFO) unless disposed
        /\ LET r == CHOOSE x \in pending : \A y \in pending : x <= y IN
             /\ pending' = pending \ {r}
             /\ lpc' = IF r \in cancelled THEN "idle" ELSE "rlock"
        /\ UNCHANGED <<queue, acquired, faulted, epoch, serial, cancelled, nextId, delivered, lenAtFault, ppc, pk, pown, prun, pep, lwork>>
RLock == /\ lpc = "rlock"                                          \* with self.lock: pop or release ownership
         /\ IF queue # <<>>
              THEN /\ lwork' = Head(queue) /\ queue' = Tail(queue) /\ lpc' = "work" /\ acquired' = acquired
              ELSE /\ acquired' = FALSE /\ lpc' = "idle" /\ UNCHANGED <<lwork, queue>>
         /\ UNCHANGED <<faulted, epoch, serial, pending, cancelled, nextId, delivered, lenAtFault, ppc, pk, pown, prun, pep>>
Work == /\ lpc = "work"                                            \* work(): downstream delivery, outside the lock
        /\ delivered' = Append(delivered, lwork)
        /\ lpc' = "resched" /\ lenAtFault' = lenAtFault
        /\ UNCHANGED <<queue, acquired, faulted, epoch, serial, pending, cancelled, nextId, ppc, pk, pown, prun, pep, lwork>>
WorkFault == /\ lpc = "work" /\ F = 1                               \* the delivery raises
             /\ delivered' = Append(delivered, lwork)
             /\ lpc' = "fault" /\ lenAtFault' = Len(delivered) + 1
             /\ UNCHANGED <<queue, acquired, faulted, epoch, serial, pending, cancelled, nextId, ppc, pk, pown, prun, pep, lwork>>
Fault == /\ lpc = "fault"                                          \* except: with self.lock: queue = []; has_faulted = True; raise
         /\ queue' = <<>> /\ faulted' = TRUE /\ lpc' = "idle"
         /\ UNCHANGED <<acquired, epoch, serial, pending, cancelled, nextId, delivered, lenAtFault, ppc, pk, pown, prun, pep, lwork>>
Resched == /\ lpc = "resched"                                      \* self.scheduler.schedule(self.run) -- result not stored
           /\ pending' = pending \cup {nextId} /\ nextId' = nextId + 1 /\ lpc' = "idle"
           /\ UNCHANGED <<queue, acquired, faulted, epoch, serial, cancelled, delivered, lenAtFault, ppc, pk, pown, prun, pep, lwork>>

Next == \/ \E p \in Prods : QAppend(p) \/ ELock(p) \/ Sched(p) \/ Assign(p) \/ NextItem(p)
        \/ Take \/ RLock \/ Work \/ WorkFault \/ Fault \/ Resched

Spec == Init /\ [][Next]_vars

\* ---------------- properties ----------------
Sub(p) == SelectSeq(delivered, LAMBDA x : x \div 10 = p)
InOrderOnce == \A p \in Prods : \A i \in 1..Len(Sub(p)) : Sub(p)[i] = Item(p, i)
NoDeliveryAfterFault == faulted => Len(delivered) = lenAtFault
Quiescent == /\ \A p \in Prods : ppc[p] = "done" /\ lpc = "idle" /\ pending \ cancelled = {}
NothingStranded == Quiescent => (faulted \/ (queue = <<>> /\ Len(delivered) = P * N))
NoPendingRunCancelled == \A r \in pending : r \notin cancelled
=============================================================================
