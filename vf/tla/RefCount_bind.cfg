CONSTANTS T = 4
          D = 3
INIT Init
NEXT Next
INVARIANTS TypeOK AtMostOnce OnlyAfterAll ReleasedAtQuiescence
