---------------------------- MODULE EventLoop ----------------------------
(* Critical-section-granularity model of reactivex.scheduler.EventLoopScheduler.
   Scheduling threads 1..NS each perform up to K operations chosen nondeterministically from:
   schedule with delay 0|1|2, cancel one of the thread's own earlier items, dispose the scheduler
   (so one state graph covers every program of that size).
   The loop thread is created by _ensure_thread inside schedule_absolute's locked block and executes
   run(): locked gather, unlocked invoke of the gathered items, locked decide (continue / timed wait / wait / exit).
   Time is an explicit variable advanced by Tick (any time, up to MaxT): timed waits end when the clock reaches
   their deadline, all waits end on notify.  Items are identified by (thread, op index). *)
EXTENDS Naturals, Sequences, FiniteSets
CONSTANTS NS, K, MaxT, ExitIfEmpty
VARIABLES clock, disposed, thread,            \* scheduler fields: _is_disposed, _thread (0 = None, else incarnation number)
          readyList, queue,                   \* _ready_list (sequence of items), _queue (set of <<due, seq, item>>)
          seq, cancelled, ran, enq,           \* insertion counter, cancelled items, history: items run (in order), enqueue order
          due, delayOf,                       \* due[item] once computed; requested delay of the item
          spc, sidx,                          \* scheduling threads: pc and program index
          lpc, batch, waitUntil, notified,    \* loop thread: pc, gathered items, deadline of a timed wait (0 = none), notify flag
          incarnations                        \* number of loop threads started so far

vars == <<clock, disposed, thread, readyList, queue, seq, cancelled, ran, enq, due, delayOf, spc, sidx, lpc, batch, waitUntil, notified, incarnations>>
Threads == 1..NS
Items == {<<t, i>> : t \in Threads, i \in 1..K}
NoDue == 99

Init == /\ clock = 0 /\ disposed = FALSE /\ thread = 0 /\ readyList = <<>> /\ queue = {} /\ seq = 0
        /\ cancelled = {} /\ ran = <<>> /\ enq = <<>> /\ due = [it \in Items |-> NoDue] /\ delayOf = [it \in Items |-> NoDue]
        /\ spc = [t \in Threads |-> "next"] /\ sidx = [t \in Threads |-> 1]
        /\ lpc = "none" /\ batch = <<>> /\ waitUntil = 0 /\ notified = FALSE /\ incarnations = 0

Item(t) == <<t, sidx[t]>>
Advance(t) == /\ sidx' = [sidx EXCEPT ![t] = sidx[t] + 1]
              /\ spc' = [spc EXCEPT ![t] = IF sidx[t] + 1 <= K THEN "next" ELSE "done"]

\* ---------------- time ----------------
Tick == /\ clock < MaxT /\ clock' = clock + 1
        /\ UNCHANGED <<disposed, thread, readyList, queue, seq, cancelled, ran, enq, due, delayOf, spc, sidx, lpc, batch, waitUntil, notified, incarnations>>

\* ---------------- scheduling threads ----------------
SPre(t) == /\ spc[t] = "next"                                  \* unlocked `if self._is_disposed: raise` and due-time computation
           /\ \E d \in 0..2 :
                IF disposed
                  THEN Advance(t) /\ UNCHANGED <<due, delayOf>>          \* DisposedException
                  ELSE /\ due' = [due EXCEPT ![Item(t)] = clock + d] /\ delayOf' = [delayOf EXCEPT ![Item(t)] = d]
                       /\ spc' = [spc EXCEPT ![t] = "slock"] /\ sidx' = sidx
           /\ UNCHANGED <<clock, disposed, thread, readyList, queue, seq, cancelled, ran, enq, lpc, batch, waitUntil, notified, incarnations>>
SchedLock(t) == /\ spc[t] = "slock"       \* with self._condition: enqueue, notify, _ensure_thread
                /\ IF due[Item(t)] <= clock
                     THEN /\ readyList' = Append(readyList, Item(t)) /\ queue' = queue
                     ELSE /\ queue' = queue \cup {<<due[Item(t)], seq + 1, Item(t)>>} /\ readyList' = readyList
                /\ seq' = seq + 1 /\ enq' = Append(enq, Item(t))
                /\ notified' = TRUE
                /\ IF thread = 0
                     THEN /\ thread' = incarnations + 1 /\ incarnations' = incarnations + 1 /\ lpc' = "gather"
                     ELSE /\ UNCHANGED <<thread, incarnations, lpc>>
                /\ Advance(t)
                /\ UNCHANGED <<clock, disposed, cancelled, ran, due, delayOf, batch, waitUntil>>
Cancel(t) == /\ spc[t] = "next"
             /\ \E k \in 1..K : k < sidx[t] /\ due[<<t, k>>] # NoDue /\ cancelled' = cancelled \cup {<<t, k>>}
             /\ Advance(t)
             /\ UNCHANGED <<clock, disposed, thread, readyList, queue, seq, ran, enq, due, delayOf, lpc, batch, waitUntil, notified, incarnations>>
DisposeLock(t) == /\ spc[t] = "next"
                  /\ disposed' = TRUE /\ notified' = TRUE
                  /\ Advance(t)
                  /\ UNCHANGED <<clock, thread, readyList, queue, seq, cancelled, ran, enq, due, delayOf, lpc, batch, waitUntil, incarnations>>

\* ---------------- loop thread ----------------
DueNow == {e \in queue : e[1] <= clock}
MinEntry(S) == CHOOSE e \in S : \A f \in S : <<e[1], e[2]>> = <<f[1], f[2]>> \/ e[1] < f[1] \/ (e[1] = f[1] /\ e[2] < f[2])
RECURSIVE SortEntries(_)
SortEntries(S) == IF S = {} THEN <<>> ELSE LET m == MinEntry(S) IN <<m[3]>> \o SortEntries(S \ {m})

Gather == /\ lpc = "gather"                                   \* first locked block of run()
          /\ IF disposed
               THEN /\ lpc' = "exited" /\ UNCHANGED <<batch, queue, readyList>>
               ELSE \* timed items that are due come first (they were due no later than now), then the ready list in order;
                    \* the real code merges the two by due time, which for items due <= now and ready items enqueued at their
                    \* due time gives: queue items whose due time is not later than the ready item's due time first
                    /\ batch' = SortEntries(DueNow) \o readyList
                    /\ queue' = queue \ DueNow /\ readyList' = <<>>
                    /\ lpc' = "invoke"
          /\ notified' = FALSE
          /\ UNCHANGED <<clock, disposed, thread, seq, cancelled, ran, enq, due, delayOf, spc, sidx, waitUntil, incarnations>>
InvokeRun == /\ lpc = "invoke" /\ batch # <<>> /\ Head(batch) \notin cancelled    \* `if not item.is_cancelled(): item.invoke()`
             /\ ran' = Append(ran, Head(batch)) /\ batch' = Tail(batch)
             /\ UNCHANGED <<clock, disposed, thread, readyList, queue, seq, cancelled, enq, due, delayOf, spc, sidx, lpc, waitUntil, notified, incarnations>>
InvokeSkip == /\ lpc = "invoke" /\ batch # <<>> /\ Head(batch) \in cancelled
              /\ batch' = Tail(batch)
              /\ UNCHANGED <<clock, disposed, thread, readyList, queue, seq, cancelled, ran, enq, due, delayOf, spc, sidx, lpc, waitUntil, notified, incarnations>>
InvokeDone == /\ lpc = "invoke" /\ batch = <<>> /\ lpc' = "decide"
              /\ UNCHANGED <<clock, disposed, thread, readyList, queue, seq, cancelled, ran, enq, due, delayOf, spc, sidx, batch, waitUntil, notified, incarnations>>
Decide == /\ lpc = "decide"                                    \* second locked block of run()
          /\ IF readyList # <<>>
               THEN /\ lpc' = "gather" /\ UNCHANGED <<waitUntil, thread>>
               ELSE IF queue # {}
                 THEN LET d == MinEntry(queue)[1] IN
                      IF d > clock THEN /\ lpc' = "wait" /\ waitUntil' = d /\ thread' = thread
                                   ELSE /\ lpc' = "gather" /\ UNCHANGED <<waitUntil, thread>>
                 ELSE IF ExitIfEmpty THEN /\ thread' = 0 /\ lpc' = "none" /\ waitUntil' = 0
                                     ELSE /\ lpc' = "wait" /\ waitUntil' = 0 /\ thread' = thread
          /\ notified' = FALSE
          /\ UNCHANGED <<clock, disposed, readyList, queue, seq, cancelled, ran, enq, due, delayOf, spc, sidx, batch, incarnations>>
Wake == /\ lpc = "wait"                                        \* condition.wait returns: notified, or the timeout elapsed
        /\ notified \/ (waitUntil # 0 /\ clock >= waitUntil)
        /\ lpc' = "gather" /\ waitUntil' = 0
        /\ UNCHANGED <<clock, disposed, thread, readyList, queue, seq, cancelled, ran, enq, due, delayOf, spc, sidx, batch, notified, incarnations>>

Next == \/ Tick \/ Gather \/ InvokeRun \/ InvokeSkip \/ InvokeDone \/ Decide \/ Wake
        \/ \E t \in Threads : SPre(t) \/ SchedLock(t) \/ Cancel(t) \/ DisposeLock(t)
Spec == Init /\ [][Next]_vars

\* ---------------- properties ----------------
Pos(s, x) == CHOOSE i \in 1..Len(s) : s[i] = x
InSeq(s, x) == \E i \in 1..Len(s) : s[i] = x
AtMostOnce == \A i, j \in 1..Len(ran) : i # j => ran[i] # ran[j]
\* immediate items (delay 0) run in the order in which their locked enqueue happened
Immediate(it) == delayOf[it] = 0
ImmediateFIFO == \A i, j \in 1..Len(ran) : (i < j /\ Immediate(ran[i]) /\ Immediate(ran[j])) => Pos(enq, ran[i]) < Pos(enq, ran[j])
\* no lost wake-up: an idle loop (waiting without timeout, or no thread) has nothing pending unless disposed
NoLostWakeup == ((lpc = "wait" /\ waitUntil = 0 /\ ~notified) \/ (lpc = "none" /\ thread = 0)) => (disposed \/ (readyList = <<>> /\ queue = {}) \/ (lpc = "none" /\ incarnations = 0))
\* a timed wait never sleeps past the earliest pending due time without a notification pending
WaitCoversEarliest == (lpc = "wait" /\ waitUntil # 0 /\ ~notified) => \A e \in queue : e[1] >= waitUntil
OneLoopThread == thread <= incarnations
=============================================================================
