CONSTANTS P = 2
          N = 3
          F = 1
INIT Init
NEXT Next
INVARIANTS InOrderOnce NoDeliveryAfterFault NothingStranded NoPendingRunCancelled
