CONSTANTS NS = 1
          K = 3
          MaxT = 2
          ExitIfEmpty = FALSE
INIT Init
NEXT Next
INVARIANTS AtMostOnce ImmediateFIFO NoLostWakeup WaitCoversEarliest OneLoopThread
