"""Shared driver for list-semantics checks (C05, C06, C07): run one real operator over
one finite cold timeline on virtual time and compare with a Python list reference.

A reference is `ref(xs, term) -> (outs, end)`:
  outs = [(value, det)]   det = index of the determining input | 'T' (source terminal) | 'S' (subscribe instant)
  end  = (kind, det, err) kind 'C' | 'E' | None(never terminates);
         err = 'SRC' (the source's own error instance) or an exception class
"""
from __future__ import annotations

from typing import Any, Callable

from . import vt


def det_time(det, timeline, sub=vt.SUB):
    if det == "S":
        return sub
    if det == "T":
        return sub + timeline[-1][0]
    return sub + timeline[det][0]


def split(timeline):
    xs = [v for (_, k, v) in timeline if k == "N"]
    term = timeline[-1][1] if timeline and timeline[-1][1] in "CE" else None
    return xs, term


def expected(ref_result, timeline):
    outs, end = ref_result
    ev = [(det_time(d, timeline), "N", vt.norm_value(v)) for (v, d) in outs]
    if end is not None and end[0] is not None:
        kind, det, err = end
        ev.append((det_time(det, timeline), kind, err if kind == "E" else None))
    return ev


def observe(build: Callable[[vt.Env, Any], Any], timeline, budget=5000):
    env = vt.Env(budget=budget)
    src = env.cold("src", timeline)
    rec = env.recorder("out")
    env.subscribe_at(vt.SUB, lambda: build(env, src), rec)
    status = env.run()
    return env, src, rec, status


def actual(rec: vt.Recorder):
    out = []
    for (t, k, v) in rec.events():
        out.append((t, k, v if k == "E" else (vt.norm_value(v) if k == "N" else None)))
    return out


def mismatch(exp, act) -> str | None:
    """Compare expected vs actual events; errors by source identity ('SRC') or exception class."""
    if len(exp) != len(act):
        return f"length differs: expected {show(exp)} got {show(act)}"
    for e, a in zip(exp, act):
        if e[0] != a[0] or e[1] != a[1]:
            return f"expected {show(exp)} got {show(act)}"
        if e[1] == "N" and e[2] != a[2]:
            return f"expected {show(exp)} got {show(act)}"
        if e[1] == "E":
            want, got = e[2], a[2]
            if want == "SRC":
                if not isinstance(got, vt.SrcError):
                    return f"expected source error, got {got!r}"
            elif isinstance(want, type):
                if not isinstance(got, want):
                    return f"expected {want.__name__}, got {got!r}"
    return None


def show(evs):
    def one(e):
        t, k, v = e
        if k == "N":
            return f"{t:g}:{v[1] if isinstance(v, tuple) and len(v) == 2 else v!r}"
        if k == "E":
            return f"{t:g}:#{v.__name__ if isinstance(v, type) else ('src' if v == 'SRC' or isinstance(v, vt.SrcError) else repr(v))}"
        return f"{t:g}:|"

    return "[" + " ".join(one(e) for e in evs) + "]"
