"""E3 part of C18: window / buffer with the boundaries (closing observables) on another thread than the source.

The source thread emits 0 .. n-1 and completes (or fails); the boundary thread emits k
boundaries (for the *_when forms: fires the closing observable of the current window, a fresh
Subject per window, so it never fires inside subscribe).  Every interleaving up to the preemption
bound, line-level scheduling points in _window.py / _buffer.py.  Windows are collected with
to_list.

Oracle (C18: "partition the source correctly", schedule independent for these non-overlapping
forms): the concatenation of the emitted windows/buffers is exactly the source's element
sequence - every element in exactly one window, in order -, at most k+1 windows, and the result
ends with the source's terminal notification.
"""
from __future__ import annotations

from . import ilv, ilvrun

FOCUS = ["operators/_window.py", "operators/_buffer.py"]
FORMS = ("buffer", "window", "buffer_when", "window_when")


class Boom(Exception):
    pass


class H:
    allow_thread_errors = False

    def __init__(self, form, n, term, k):
        self.form, self.n, self.term, self.k = form, n, term, k
        self.name = f"window-threads|{form}|n={n}|{term}|boundaries={k}"
        self.sig = "window-threads"
        self.focus = ilv.focus_files(*FOCUS)

    def setup(self, run):
        import reactivex
        from reactivex import operators as ops
        from reactivex.subject import Subject

        st = {"out": [], "src": Subject(), "b": Subject(), "closers": [], "fired": 0}

        def closer():
            c = Subject()
            st["closers"].append(c)
            return c

        L = lambda w: w.pipe(ops.to_list(), ops.catch(lambda e, _: reactivex.of("window-failed")))  # noqa: E731
        op = {
            "buffer": lambda: ops.buffer(st["b"]),
            "window": lambda: reactivex.compose(ops.window(st["b"]), ops.flat_map(L)),
            "buffer_when": lambda: ops.buffer_when(closer),
            "window_when": lambda: reactivex.compose(ops.window_when(closer), ops.flat_map(L)),
        }[self.form]()
        out = st["out"]
        st["d"] = st["src"].pipe(op).subscribe(lambda v: out.append(v), lambda e: out.append(("E", type(e).__name__)), lambda: out.append("C"))
        return st

    def bodies(self, st):
        def src():
            for i in range(self.n):
                st["src"].on_next(i)
            st["src"].on_completed() if self.term == "C" else st["src"].on_error(Boom("src"))

        def bnd():
            for _ in range(self.k):
                if self.form.endswith("_when"):
                    todo = st["closers"][st["fired"]:]
                    st["fired"] += len(todo)
                    for c in todo:
                        c.on_next("close")
                else:
                    st["b"].on_next("b")

        return [src, bnd]

    def outcome(self, x):
        return tuple(tuple(o) if isinstance(o, list) else o for o in x.state["out"])

    def nontrivial(self, x):
        return x.switches > 0

    def check(self, x):
        if x.outcome != "quiescent":
            return []
        out, P = list(x.state["out"]), []

        def bad(cls, text):
            P.append((f"{self.form}|threads|{cls}", f"{text}; source 0..{self.n - 1} then {self.term}, {self.k} boundaries; downstream {out}"))

        wins = [o for o in out if isinstance(o, list)]
        flat = [v for w in wins for v in w]
        ended = out[-1] if out and (out[-1] == "C" or (isinstance(out[-1], tuple) and out[-1][0] == "E")) else None
        if self.term == "C":
            if flat != list(range(self.n)):
                bad("not-a-partition", f"concatenation of the windows is {flat}")
            if ended != "C":
                bad("never-completed", "the source completed")
            if "window-failed" in out:
                bad("window-failed", "a window received an error although nothing failed")
        else:
            if flat != list(range(len(flat))):
                bad("not-a-partition", f"concatenation of the windows is {flat}")
            if not (isinstance(ended, tuple) and ended[0] == "E"):
                bad("error-not-delivered", "the source failed")
        if len(wins) > self.k + 1:
            bad("too-many-windows", f"{len(wins)} windows for {self.k} boundaries")
        return P[:3]


def harnesses(tier):
    if tier == "quick":
        return [H(f, 3, "C", 2) for f in FORMS] + [H("window", 2, "E", 1)]
    return [H(f, n, t, k) for f in FORMS for n in (2, 3) for t in ("C", "E") for k in (1, 2, 3)]


def PB_of(tier, h):
    return 1 if tier == "quick" else 2


def shard(part, shard_i, nshards, tier, seed, deadline):
    ilv.install()
    for i, h in enumerate(harnesses(tier)):
        if (i + seed) % nshards == shard_i:
            ilvrun.explore_all(part, [h], 0, 1, PB_of(tier, h), 0, deadline, horizon=5.0, coarse_pb=2 if tier == "quick" else 3)


def run_part(ctx):
    before = ctx.total.counters.get("executions", 0)
    hs = harnesses(ctx.tier)
    ctx.sharded(shard, nshards=len(hs), deadline=ctx.sub_deadline(0.5))
    ex = ctx.total.counters.get("executions", 0) - before
    ctx.cov["e3_threads"] = {"schedules_explored": ex, "coarse_executions": ctx.total.counters.get("coarse_executions", 0), "schedule_points": ctx.total.counters.get("schedule_points", 0), "PB": 1 if ctx.tier == "quick" else 2,
                             "harnesses": [h.name for h in hs]}
    ctx.assumptions = list(ctx.assumptions) + [
        "E3 part: window/buffer(boundaries) and window_when/buffer_when with the boundaries on a second controlled thread (closing observables never fire "
        "inside subscribe); preemption at sync operations and line boundaries of _window.py/_buffer.py"
    ]


def replay(case):
    ilv.install()
    for tier in ("quick", "thorough"):
        for h in harnesses(tier):
            if h.name == case["harness"]:
                return ilvrun.replay_harness(h, case)
    return []
