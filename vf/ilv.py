"""E3: preemption-bounded exhaustive exploration of thread interleavings of the real
library code under a cooperative scheduler that owns every lock, condition, event,
thread, timer and clock the library uses.

* `install()` imports every reactivex module and replaces, *inside the library's modules
  only*, the names Lock/RLock/Condition/Event/Thread/Timer (and the `threading` module
  reference, and the clock function) by controlled versions.  Controlled primitives behave
  exactly like the real ones when called from a thread that is not managed by a running
  exploration, so the rest of the process (multiprocessing, logging) is unaffected.
* Managed threads are real OS threads; exactly one holds the baton.  Scheduling points:
  every synchronisation operation, every line of the focus files (sys.settrace), explicit
  `point()` calls of the harness.
* `explore()` is a stateless DFS with replay and iterative bounding of two deviation
  kinds: preemptions (switching away from a runnable thread) and clock ticks (advancing the
  controlled clock to the next deadline although some thread is runnable); switches at
  voluntary yields of harness callbacks are free of preemption cost but bounded by VB.
"""
from __future__ import annotations

import datetime
import importlib
import os
import pkgutil
import sys
import threading as _threading
import time as _time
import types
from typing import Any, Callable

_RealLock = _threading.Lock
_RealRLock = _threading.RLock
_RealCondition = _threading.Condition
_RealEvent = _threading.Event
_RealThread = _threading.Thread
_RealTimer = _threading.Timer
_RealSemaphore = _threading.Semaphore
_get_ident = _threading.get_ident

EPOCH = datetime.datetime(2020, 1, 1, tzinfo=datetime.timezone.utc)


class AbortRun(BaseException):
    """Unwinds a managed thread when the execution is over (quiescence, deadlock, horizon)."""


class EngineError(Exception):
    pass


_managed: dict[int, "MThread"] = {}
_current_run: "Run | None" = None


def cur() -> "MThread | None":
    if _current_run is None:
        return None
    return _managed.get(_get_ident())


# ===================================================================== primitives

class CLock:
    _reentrant = False

    def __init__(self) -> None:
        self._real = _RealRLock() if self._reentrant else _RealLock()
        self.owner: MThread | None = None
        self.count = 0

    # -- managed path
    def acquire(self, blocking: bool = True, timeout: float = -1) -> bool:
        me = cur()
        if me is None:
            return self._real.acquire(blocking, timeout)
        run = me.run
        if run.aborting:
            return True
        run.touched.add(self)
        run.point(me, "acquire")
        if self._reentrant and self.owner is me:
            self.count += 1
            return True
        if self.owner is not None:
            if not blocking:
                return False
            deadline = None if timeout is None or timeout < 0 else run.clock + timeout
            run.block(me, lambda: self.owner is None, deadline, "lock")
            if self.owner is not None:  # timed out
                return False
        self.owner = me
        self.count = 1
        run.sync_event(me, "acq", self)
        return True

    def release(self) -> None:
        me = cur()
        if me is None:
            return self._real.release()
        if me.run.aborting:
            if self.owner is me:
                self.count -= 1
                if self.count <= 0:
                    self.owner, self.count = None, 0
            return
        if self.owner is not me:
            raise RuntimeError("release of un-acquired/foreign lock")
        self.count -= 1
        if self.count == 0:
            self.owner = None
            me.run.sync_event(me, "rel", self)

    def locked(self) -> bool:
        if cur() is None:
            return self._real.locked() if hasattr(self._real, "locked") else False
        return self.owner is not None

    def __enter__(self):
        self.acquire()
        return self

    def __exit__(self, *a):
        self.release()

    # used by CCondition
    def _release_all(self, me) -> int:
        n = self.count
        self.count, self.owner = 0, None
        return n

    def _reacquire(self, me, n: int) -> None:
        run = me.run
        if self.owner is not None and self.owner is not me:
            run.block(me, lambda: self.owner is None, None, "lock")
        self.owner, self.count = me, n

    def _reset(self) -> None:
        self.owner, self.count = None, 0


class CRLock(CLock):
    _reentrant = True


class CCondition:
    def __init__(self, lock=None) -> None:
        self._lock = lock if lock is not None else CRLock()
        self._realcond = _RealCondition(self._lock._real) if isinstance(self._lock, CLock) else _RealCondition(self._lock)
        self.waiters: list[list] = []  # [thread, notified]
        self.acquire = self._lock.acquire
        self.release = self._lock.release

    def __enter__(self):
        return self._lock.__enter__()

    def __exit__(self, *a):
        return self._lock.__exit__(*a)

    def wait(self, timeout: float | None = None) -> bool:
        me = cur()
        if me is None:
            return self._realcond.wait(timeout)
        run = me.run
        if run.aborting:
            raise AbortRun()
        if self._lock.owner is not me:
            raise RuntimeError("cannot wait on un-acquired lock")
        entry = [me, False]
        self.waiters.append(entry)
        n = self._lock._release_all(me)
        deadline = None if timeout is None else run.clock + max(0.0, timeout)
        run.sync_event(me, "wait", self)
        run.block(me, lambda: entry[1], deadline, "cond")
        if entry in self.waiters:
            self.waiters.remove(entry)
        self._lock._reacquire(me, n)
        return entry[1]

    def wait_for(self, predicate, timeout=None):
        me = cur()
        if me is None:
            return self._realcond.wait_for(predicate, timeout)
        end = None if timeout is None else me.run.clock + timeout
        r = predicate()
        while not r:
            if end is not None and me.run.clock >= end:
                break
            self.wait(None if end is None else end - me.run.clock)
            r = predicate()
        return r

    def notify(self, n: int = 1) -> None:
        me = cur()
        if me is None:
            return self._realcond.notify(n)
        if me.run.aborting:
            return
        k = 0
        for e in list(self.waiters):
            if k >= n:
                break
            if not e[1]:
                e[1] = True
                self.waiters.remove(e)
                k += 1
        me.run.sync_event(me, "notify", self)

    def notify_all(self) -> None:
        self.notify(len(self.waiters) + 1)


class CEvent:
    def __init__(self) -> None:
        self._real = _RealEvent()
        self.flag = False

    def is_set(self) -> bool:
        return self.flag if cur() is not None else self._real.is_set()

    isSet = is_set

    def set(self) -> None:
        me = cur()
        if me is None:
            self._real.set()
            self.flag = True
            return
        self.flag = True
        if not me.run.aborting:
            me.run.touched_events.add(self)
            me.run.point(me, "event.set")

    def clear(self) -> None:
        self.flag = False
        if cur() is None:
            self._real.clear()

    def wait(self, timeout: float | None = None) -> bool:
        me = cur()
        if me is None:
            return self._real.wait(timeout)
        run = me.run
        if run.aborting:
            raise AbortRun()
        run.touched_events.add(self)
        run.point(me, "event.wait")
        if not self.flag:
            deadline = None if timeout is None else run.clock + max(0.0, timeout)
            run.block(me, lambda: self.flag, deadline, "event")
        return self.flag


class MThread:
    """A managed thread of one execution."""

    def __init__(self, run: "Run", tid: int, fn: Callable[[], Any], name: str, harness: bool):
        self.run, self.tid, self.fn, self.name, self.harness = run, tid, fn, name, harness
        self.sem = _RealSemaphore(0)
        self.state = "enabled"  # enabled | blocked | finished
        self.can_run: Callable[[], bool] | None = None
        self.deadline: float | None = None
        self.why = ""
        self.atomic = 0
        self.real: _threading.Thread | None = None
        self.error: BaseException | None = None
        self.started_real = False

    def enabled(self, clock: float) -> bool:
        if self.state == "enabled":
            return True
        if self.state == "blocked":
            if self.can_run is not None and self.can_run():
                return True
            if self.deadline is not None and clock >= self.deadline:
                return True
        return False

    def __repr__(self):
        return f"T{self.tid}:{self.name}:{self.state}"


class CThread:
    """threading.Thread replacement: managed when started from a managed thread."""

    def __new__(cls, group=None, target=None, name=None, args=(), kwargs=None, *, daemon=None):
        if cur() is None:
            return _RealThread(group=group, target=target, name=name, args=args, kwargs=kwargs or {}, daemon=daemon)
        return object.__new__(cls)

    def __init__(self, group=None, target=None, name=None, args=(), kwargs=None, *, daemon=None):
        self._target, self._args, self._kwargs = target, args, kwargs or {}
        self.name = name or "thread"
        self.daemon = bool(daemon)
        self._m: MThread | None = None

    def run(self):
        if self._target is not None:
            self._target(*self._args, **self._kwargs)

    def start(self):
        me = cur()
        if me is None:
            raise EngineError("managed Thread object started from an unmanaged thread")
        self._m = me.run.spawn(self.run, name=self.name, harness=False)
        me.run.point(me, "thread.start")

    def join(self, timeout=None):
        me = cur()
        if me is None or self._m is None:
            return
        run = me.run
        m = self._m
        run.point(me, "join")
        if m.state != "finished":
            deadline = None if timeout is None else run.clock + timeout
            run.block(me, lambda: m.state == "finished", deadline, "join")

    def is_alive(self):
        return self._m is not None and self._m.state != "finished"

    @property
    def ident(self):
        return self._m.real.ident if self._m is not None and self._m.real is not None else None


class CTimer(CThread):
    def __new__(cls, interval, function, args=None, kwargs=None):
        if cur() is None:
            return _RealTimer(interval, function, args, kwargs)
        return object.__new__(cls)

    def __init__(self, interval, function, args=None, kwargs=None):
        CThread.__init__(self, name="timer")
        self.interval, self.function = interval, function
        self.args, self.kwargs = args or [], kwargs or {}
        self.finished = CEvent()

    def cancel(self):
        self.finished.set()

    def run(self):
        self.finished.wait(self.interval)
        if not self.finished.is_set():
            self.function(*self.args, **self.kwargs)
        self.finished.set()


class CExecutor:
    """Controlled stand-in for ThreadPoolExecutor: each submit runs on a fresh managed thread."""

    def __init__(self, *a, **kw):
        pass

    def submit(self, fn, *args, **kwargs):
        import concurrent.futures as cf

        fut: cf.Future = cf.Future()

        def body():
            if not fut.set_running_or_notify_cancel():
                return
            try:
                fut.set_result(fn(*args, **kwargs))
            except Exception as e:  # noqa
                fut.set_exception(e)

        CThread(target=body, name="pool").start()
        return fut

    def shutdown(self, *a, **kw):
        pass


# ===================================================================== one execution

class Point:
    __slots__ = ("n", "me_enabled", "tick_index", "chosen", "label", "vol")

    def __init__(self, n, me_enabled, tick_index, chosen, label, vol=False):
        self.n, self.me_enabled, self.tick_index, self.chosen, self.label, self.vol = n, me_enabled, tick_index, chosen, label, vol


class Run:
    def __init__(self, prefix: list[int], focus: set[str], max_points: int = 4000, horizon: float = 50.0):
        self.prefix = prefix
        self.focus = focus
        self.max_points = max_points
        self.horizon = horizon
        self.clock = 0.0
        self.threads: list[MThread] = []
        self.points: list[Point] = []
        self.choices: list[int] = []
        self.trace: list[tuple] = []  # (tid, label) of every decision, for replay determinism
        self.events: list[tuple] = []  # harness-visible event log (ordered)
        self.sync_log: list[tuple] | None = None  # optional (tid, kind, obj, where) for model binding
        self.aborting = False
        self.outcome = "running"  # quiescent | deadlock | horizon | error
        self.done = _RealEvent()
        self.touched: set[CLock] = set()
        self.touched_events: set[CEvent] = set()
        self.npoints = 0
        self.switches = 0
        self.state: Any = None
        self.deadlocked: list[str] = []
        self.lines_only = False

    # ---- logging helpers for harnesses
    def log(self, *ev) -> None:
        me = cur()
        self.events.append((me.tid if me else -1, self.clock) + ev)

    def now(self) -> datetime.datetime:
        return EPOCH + datetime.timedelta(seconds=self.clock)

    def sync_event(self, me: MThread, kind: str, obj: Any) -> None:
        if self.sync_log is not None:
            f = sys._getframe(2)
            # innermost library frame
            while f is not None and "/vf/" in f.f_code.co_filename:
                f = f.f_back
            self.sync_log.append((me.tid, kind, id(obj), f.f_code.co_qualname if f else "?"))

    # ---- thread management
    def spawn(self, fn: Callable[[], Any], name: str = "t", harness: bool = True) -> MThread:
        m = MThread(self, len(self.threads), fn, name, harness)
        self.threads.append(m)
        t = _RealThread(target=self._body, args=(m,), daemon=True, name=f"ilv-{m.tid}")
        m.real = t
        t.start()
        return m

    def _body(self, m: MThread) -> None:
        m.sem.acquire()
        _managed[_get_ident()] = m
        try:
            if self.aborting:
                return
            if self.focus:
                sys.settrace(self._tracer)
            try:
                m.fn()
            except AbortRun:
                pass
            except BaseException as e:  # harness/library exception escaping a thread body
                m.error = e
                self.events.append((m.tid, self.clock, "thread-error", repr(e)))
        finally:
            sys.settrace(None)
            m.state = "finished"
            _managed.pop(_get_ident(), None)
            if not self.aborting:
                try:
                    self._schedule(m, me_enabled=False, label="exit")
                except AbortRun:
                    pass
                except BaseException as e:  # engine failure
                    self.outcome = "engine-error:" + repr(e)
                    self._finish()

    def _tracer(self, frame, event, arg):
        if frame.f_code.co_filename in self.focus:
            return self._line
        return None

    def _line(self, frame, event, arg):
        if event == "line":
            me = _managed.get(_get_ident())
            if me is not None and not me.atomic and not self.aborting:
                self.point(me, "line", frame)
        return self._line

    # ---- scheduling
    def point(self, me: MThread, label: str, frame=None, voluntary: bool = False) -> None:
        if me.atomic or self.aborting:
            return
        if self.lines_only and label in ("acquire", "event.set", "event.wait"):
            # coarse mode (harness.lines_only): switch only at line boundaries of the focus files, at explicit harness points
            # and where a thread blocks, starts or ends - a subset of the schedules of the normal mode, affordable at PB 2
            return
        self._schedule(me, True, label, voluntary)

    def block(self, me: MThread, can_run: Callable[[], bool], deadline: float | None, why: str) -> None:
        """Block the calling managed thread until can_run() or the clock reaches deadline."""
        if self.aborting:
            raise AbortRun()
        if me.atomic:
            raise EngineError(f"thread {me} would block ({why}) inside an atomic section")
        me.state, me.can_run, me.deadline, me.why = "blocked", can_run, deadline, why
        self._schedule(me, False, "block:" + why)
        me.state, me.can_run, me.deadline = "enabled", None, None

    def _finish(self) -> None:
        self.aborting = True
        for t in self.threads:
            if t.state != "finished":
                t.sem.release()
        self.done.set()

    def _schedule(self, me: MThread, me_enabled: bool, label: str, voluntary: bool = False) -> None:
        self.npoints += 1
        if self.npoints > self.max_points:
            self.outcome = "horizon"
            self._finish()
            raise AbortRun()
        while True:
            others = [t for t in self.threads if t is not me and t.enabled(self.clock)]
            # a blocked caller may itself become runnable again (its deadline reached by a clock
            # advance decided below, or its condition satisfied by the time it gets here)
            me_ok = me_enabled or (me.state == "blocked" and me.enabled(self.clock))
            enabled = ([me] if me_ok else []) + others
            pending = [t.deadline for t in self.threads if t.state == "blocked" and t.deadline is not None and t.deadline > self.clock and not (t.can_run and t.can_run())]
            if not enabled:
                if pending and min(pending) <= self.horizon:
                    self.clock = min(pending)  # free advance: nobody can run
                    continue
                # nothing can run any more
                blocked_h = [t for t in self.threads if t.harness and t.state == "blocked"]
                if not blocked_h:
                    self.outcome = "quiescent"
                elif pending:
                    self.outcome = "horizon"
                else:
                    self.outcome = "deadlock"
                    self.deadlocked = [f"{t.name}:{t.why}" for t in blocked_h]
                self._finish()
                if me.state != "finished":
                    raise AbortRun()
                return
            options: list[Any] = list(enabled)
            tick_index = -1
            if pending and min(pending) <= self.horizon:
                tick_index = len(options)
                options.append("tick")
            choice = 0
            if len(options) > 1:
                i = len(self.points)
                if i < len(self.prefix):
                    choice = self.prefix[i]
                    if choice >= len(options):
                        self.outcome = "engine-error:replay-divergence"
                        self._finish()
                        raise AbortRun()
                # a voluntary yield (harness callback "blocking" inside user code) costs no preemption
                self.points.append(Point(len(options), me_enabled and not voluntary, tick_index, choice, label, voluntary and me_enabled))
                self.choices.append(choice)
            pick = options[choice]
            if pick == "tick":
                self.clock = min(pending)
                self.trace.append((-1, "tick"))
                continue
            self.trace.append((pick.tid, label))
            if pick is me:
                return
            self.switches += 1
            pick.sem.release()
            if me.state == "finished":
                return
            me.sem.acquire()
            if self.aborting:
                raise AbortRun()
            return


class atomic:
    """`with ilv.atomic():` — no scheduling points inside (harness prologue)."""

    def __enter__(self):
        me = cur()
        if me is not None:
            me.atomic += 1

    def __exit__(self, *a):
        me = cur()
        if me is not None:
            me.atomic -= 1


def point(label: str = "harness", voluntary: bool = False) -> None:
    """Explicit scheduling point of a harness callback.  voluntary=True models user code that
    yields the processor by itself (blocking I/O in an observer): switching there is not a preemption."""
    me = cur()
    if me is not None:
        me.run.point(me, label, None, voluntary)


def run() -> Run:
    me = cur()
    assert me is not None
    return me.run


def clock_now() -> datetime.datetime:
    r = _current_run
    if r is not None and cur() is not None:
        return r.now()
    return datetime.datetime.now(datetime.timezone.utc)


# ===================================================================== execution + search

def execute(harness, prefix: list[int], max_points: int = 4000, horizon: float = 50.0, sync_log: bool = False) -> Run:
    """One execution of `harness` under choice prefix `prefix` (defaults afterwards)."""
    global _current_run
    r = Run(prefix, set(harness.focus), max_points, horizon)
    r.lines_only = bool(getattr(harness, "lines_only", False))
    if sync_log or getattr(harness, "sync_log", False):
        r.sync_log = []
    _current_run = r

    def main():
        me = cur()
        me.atomic += 1
        try:
            r.state = harness.setup(r)
        finally:
            me.atomic -= 1
        bodies = harness.bodies(r.state)
        for i, b in enumerate(bodies):
            r.spawn(b, name=f"h{i + 1}", harness=True)

    m0 = r.spawn(main, name="main", harness=True)
    m0.sem.release()
    if not r.done.wait(60):
        r.outcome = "engine-error:real-timeout"
        r.aborting = True
        for t in r.threads:
            t.sem.release()
    for t in r.threads:
        if t.real is not None:
            t.real.join(10)
            if t.real.is_alive():
                r.outcome = "engine-error:thread-did-not-unwind"
    for l in r.touched:
        l._reset()
    _current_run = None
    _managed.clear()
    return r


class Stats:
    def __init__(self):
        self.executions = 0
        self.max_depth = 0
        self.outcomes: set = set()
        self.complete = True
        self.bound = (0, 0)
        self.transitions = 0
        self.states: set = set()


def explore(harness, PB: int, TB: int, judge: Callable[[Run], None], deadline: float | None = None,
            start: list | None = None, split_at: int | None = None, stats: Stats | None = None,
            max_points: int = 4000, horizon: float = 50.0, VB: int = 2):
    """Stateless DFS over all schedules with <= PB preemptions and <= TB tick deviations.
    Returns (stats, leftover) — leftover = unexplored (prefix, used_p, used_t, used_v) items when
    split_at is given and the stack reached that size (for distributing subtrees)."""
    st = stats or Stats()
    stack = list(start) if start is not None else [([], 0, 0, 0)]
    while stack:
        if deadline is not None and _time.time() > deadline:
            st.complete = False
            return st, stack
        if split_at is not None and len(stack) >= split_at:
            return st, stack
        prefix, up, ut, uv = stack.pop()
        x = execute(harness, prefix, max_points, horizon)
        st.executions += 1
        if x.outcome.startswith("engine-error"):
            raise EngineError(f"{x.outcome} on prefix {prefix} of {harness.name}")
        if x.choices[: len(prefix)] != prefix:
            raise EngineError(f"replay divergence on prefix {prefix} of {harness.name}")
        st.max_depth = max(st.max_depth, len(x.points))
        st.transitions += len(x.trace)
        judge(x)
        kids = []
        for i in range(len(prefix), len(x.points)):
            p = x.points[i]
            for alt in range(1, p.n):
                is_tick = alt == p.tick_index
                cp = up + (1 if (p.me_enabled and not is_tick) else 0)
                ct = ut + (1 if is_tick else 0)
                cv = uv + (1 if (p.vol and not is_tick) else 0)  # switching away at a voluntary yield of a harness callback
                if cp <= PB and ct <= TB and cv <= VB:
                    kids.append((x.choices[:i] + [alt], cp, ct, cv))
        stack.extend(reversed(kids))
    return st, []


# ===================================================================== installation

_installed = False


def install(repo_root: str | None = None) -> None:
    """Import every reactivex module and rebind threading primitives + clock inside them."""
    global _installed
    if _installed:
        return
    from . import core

    core.bind_repo()
    import reactivex

    fake = types.ModuleType("threading")
    fake.__dict__.update(_threading.__dict__)
    fake.Lock, fake.RLock, fake.Condition, fake.Event, fake.Thread, fake.Timer = CLock, CRLock, CCondition, CEvent, CThread, CTimer
    real_map = {
        id(_RealLock): CLock,
        id(_RealRLock): CRLock,
        id(_RealCondition): CCondition,
        id(_RealEvent): CEvent,
        id(_RealThread): CThread,
        id(_RealTimer): CTimer,
    }
    for m in pkgutil.walk_packages(reactivex.__path__, "reactivex."):
        try:
            importlib.import_module(m.name)
        except Exception:  # optional third-party loops (gevent, tornado, ...) are not installed
            pass
    lock_types = (type(_RealLock()), type(_RealRLock()))
    for name, mod in list(sys.modules.items()):
        if not (name == "reactivex" or name.startswith("reactivex.")) or mod is None:
            continue
        for k, v in list(vars(mod).items()):
            if id(v) in real_map:
                setattr(mod, k, real_map[id(v)])
            elif v is _threading:
                setattr(mod, k, fake)
            elif isinstance(v, type) and v.__module__ == name:
                for ck, cv in list(vars(v).items()):
                    if isinstance(cv, lock_types):
                        setattr(v, ck, CRLock() if isinstance(cv, lock_types[1]) else CLock())
    import logging

    logging.getLogger("Rx").setLevel(logging.CRITICAL)  # "Do not schedule blocking work!" etc. is noise here
    import reactivex.scheduler.scheduler as sch

    sch.default_now = clock_now
    import reactivex.scheduler.threadpoolscheduler as tps

    for k, v in list(vars(tps).items()):
        if getattr(v, "__name__", "") == "ThreadPoolExecutor":
            setattr(tps, k, CExecutor)
    try:
        import reactivex.scheduler.eventloop.asynciothreadsafescheduler as ats

        ats.Future = CFuture  # the library blocks on future.result(): must be a controlled wait
    except Exception:
        pass
    # process-wide caches whose first use takes a different code path (and therefore different line events) than later
    # uses: warm them up so that every execution, including the first one of a worker process, sees the same path
    from reactivex.scheduler import CurrentThreadScheduler, ImmediateScheduler, TimeoutScheduler

    CurrentThreadScheduler.singleton()
    TimeoutScheduler()
    ImmediateScheduler()
    _installed = True


def focus_files(*rel: str) -> list[str]:
    from . import core

    return [os.path.join(os.path.realpath(core.REPO), "reactivex", r) for r in rel]


# ===================================================================== controlled Future + virtual asyncio loop

class CFuture:
    """Stand-in for concurrent.futures.Future where the library blocks on .result() (controlled wait)."""

    def __init__(self):
        self._ev = CEvent()
        self._res = None
        self._exc = None

    def set_result(self, r):
        self._res = r
        self._ev.set()

    def set_exception(self, e):
        self._exc = e
        self._ev.set()

    def done(self):
        return self._ev.is_set()

    def result(self, timeout=None):
        self._ev.wait(timeout)
        if self._exc is not None:
            raise self._exc
        return self._res


def make_virtual_loop():
    """An asyncio event loop whose clock is the explorer's and whose selector wait is a
    controlled blocking point; run it with run_forever() on a managed (non-harness) thread."""
    import asyncio

    class _Selector:
        def __init__(self, loop):
            self.loop = loop
            self.woken = False

        def select(self, timeout=None):
            me = cur()
            if me is None:
                return []
            r = me.run
            if self.woken:
                self.woken = False
                r.point(me, "loop.select")
                return []
            if timeout is not None and timeout <= 0:
                r.point(me, "loop.select")
                return []
            deadline = None if timeout is None else r.clock + timeout
            r.block(me, lambda: self.woken, deadline, "select")
            self.woken = False
            return []

        def close(self):
            pass

    class VirtualLoop(asyncio.BaseEventLoop):
        def __init__(self):
            super().__init__()
            self._selector = _Selector(self)
            self._clock_resolution = 1e-9

        def time(self):
            r = _current_run
            return r.clock if r is not None else 0.0

        def _process_events(self, event_list):
            pass

        def _write_to_self(self):
            self._selector.woken = True
            me = cur()
            if me is not None:
                me.run.point(me, "loop.wakeup")

    return VirtualLoop()
