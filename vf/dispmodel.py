"""Sequential reference models of the container disposables + helpers shared by C25–C27."""
from __future__ import annotations

import itertools
from typing import Any


class Rejected(Exception):
    pass


class Model:
    """Reference semantics.  Items are names; counts[name] = number of dispose() calls the
    container owes the item so far."""

    def __init__(self, kind: str):
        self.kind = kind
        self.held: list[str] = []
        self.disposed = False
        self.counts: dict[str, int] = {}
        self.free: set[str] = set()  # items the container no longer answers for (statement silent)

    def copy(self) -> "Model":
        m = Model(self.kind)
        m.held, m.disposed, m.counts, m.free = list(self.held), self.disposed, dict(self.counts), set(self.free)
        return m

    def _d(self, x):
        self.counts[x] = self.counts.get(x, 0) + 1

    def apply(self, op: str, item: str | None) -> Any:
        k = self.kind
        if op == "dispose":
            if not self.disposed:
                self.disposed = True
                for x in self.held:
                    self._d(x)
                self.held = []
            return None
        if op == "read":
            return self.held[0] if self.held else None
        if k == "composite":
            if op == "add":
                if self.disposed:
                    self._d(item)
                else:
                    self.held.append(item)
                return None
            if op == "remove":
                if not self.disposed and item in self.held:
                    self.held.remove(item)
                    self._d(item)
                    return True
                return False
            if op == "clear":
                for x in self.held:
                    self._d(x)
                self.held = []
                return None
        if op == "assign":
            if self.disposed:
                self._d(item)
                return None
            if k == "single":
                if self.held:
                    return "REJECTED"
                self.held = [item]
                return None
            if k == "serial":
                for x in self.held:
                    self._d(x)
                self.held = [item]
                return None
            if k == "multiple":
                self.free.update(self.held)  # the replaced item is released; no promise either way
                self.held = [item]
                return None
        raise ValueError((k, op))


def make_container(kind: str):
    from reactivex.disposable import CompositeDisposable, MultipleAssignmentDisposable, SerialDisposable, SingleAssignmentDisposable

    return {"composite": CompositeDisposable, "serial": SerialDisposable, "single": SingleAssignmentDisposable, "multiple": MultipleAssignmentDisposable}[kind]()


def make_item(name: str, falsy: bool, on_dispose=None):
    """Counting disposable.  The falsy variant is a real (empty) CompositeDisposable subclass:
    `len(item) == 0`, i.e. bool(item) is False, as for any empty composite in user code."""
    from reactivex.abc import DisposableBase
    from reactivex.disposable import CompositeDisposable

    if falsy:
        class FalsyItem(CompositeDisposable):
            def __init__(self):
                super().__init__()
                self.name, self.n = name, 0

            def dispose(self):
                self.n += 1
                if on_dispose:
                    on_dispose(name)
                super().dispose()

            def __repr__(self):
                return f"<falsy {name}>"

        return FalsyItem()

    class Item(DisposableBase):
        def __init__(self):
            self.name, self.n = name, 0

        def dispose(self):
            self.n += 1
            if on_dispose:
                on_dispose(name)

        def __repr__(self):
            return f"<item {name}>"

    return Item()


def real_apply(container, kind: str, op: str, item) -> Any:
    """Perform op on the real container; returns the result in the model's vocabulary."""
    if op == "dispose":
        return container.dispose()
    if op == "read":
        cur = container.disposable if kind != "composite" else (container.to_list()[0] if container.to_list() else None)
        return getattr(cur, "name", None) if cur is not None else None
    if op == "add":
        return container.add(item)
    if op == "remove":
        return container.remove(item)
    if op == "clear":
        return container.clear()
    if op == "assign":
        try:
            container.disposable = item
            return None
        except Exception as e:
            if "already been assigned" in str(e):
                return "REJECTED"
            raise
    raise ValueError(op)


def real_held(container, kind: str) -> list[str]:
    if kind == "composite":
        return [x.name for x in container.to_list()]
    cur = container.current
    return [cur.name] if cur is not None else []


def linearizable(model0: Model, calls: list[dict], final_counts: dict[str, int], final_held: list[str]) -> bool:
    """calls: dicts with op, item, result, call (index), ret (index).  True iff some total order
    consistent with real-time precedence reproduces every result, the final per-item dispose
    counts and the final held set on the sequential model."""
    n = len(calls)
    for perm in itertools.permutations(range(n)):
        pos = {c: i for i, c in enumerate(perm)}
        ok = True
        for a in range(n):
            for b in range(n):
                if a != b and calls[a]["ret"] < calls[b]["call"] and pos[a] > pos[b]:
                    ok = False
                    break
            if not ok:
                break
        if not ok:
            continue
        m = model0.copy()
        for ci in perm:
            c = calls[ci]
            if m.apply(c["op"], c["item"]) != c["result"]:
                ok = False
                break
        if not ok:
            continue
        if sorted(m.held) != sorted(final_held):
            continue
        if all(m.counts.get(k, 0) == v for k, v in final_counts.items() if k not in m.free):
            return True
    return False
