"""Helpers shared by the re-use checks C04 (re-subscription), C08 (falsy renaming) and C44 (operator re-use).

* CtxScheduler: VScheduler that propagates a *causal context* through scheduled actions: an action
  runs with the context that was current when it was scheduled.  The harness sets the context to the
  subscription's id around each `subscribe` call, hence every user-callback invocation can be
  attributed to the subscription that caused it (cold pipelines: exactly one).  That is what lets the
  stateful-by-design callbacks (loop conditions, inner pickers, flaky sources) be *per-subscription
  deterministic scripts* even when subscriptions overlap or start in the same instant.
* extra entries: per-subscription versions of the catalogue's stateful entries, the argument-kind
  families named by C04's statement, connectable-producing operators and the few factories of
  `reactivex.operators.__all__` the catalogue does not instantiate (C44).
* nv(): R2 normalisation that is structural for notifications/dataclasses, replaces observables by
  placeholders, optionally rebases clock readings and maps leaves (C08's renaming).
* run_pipeline(): one execution: the same observable object subscribed at several instants.
"""
from __future__ import annotations

import dataclasses
import datetime as _dt
from typing import Any, Callable

from . import catalogue, vt
from .catalogue import Entry, Kit, X_empty, X_err, X_never, X_two


class CtxScheduler(vt.VScheduler):
    def __init__(self, budget: int = 20000) -> None:
        super().__init__(budget)
        self.ctx: Any = None

    def schedule_absolute(self, duetime, action, state=None):  # type: ignore[override]
        c = self.ctx
        me = self

        def in_ctx(s, st=None):
            prev = me.ctx
            me.ctx = c
            try:
                return action(s, st)
            finally:
                me.ctx = prev

        return super().schedule_absolute(duetime, in_ctx, state)


def box(K: Kit, name: str) -> list:
    """Counter cell private to (stage, name, causal context = subscription)."""
    env = K.env
    boxes = env.__dict__.setdefault("boxes", {})
    return boxes.setdefault((K.stage, name, getattr(env.sched, "ctx", None)), [0])


def _inc(b):
    b[0] += 1
    return b[0] - 1


class ReIter:
    """Re-iterable custom iterable (neither list nor tuple): every iter() starts afresh."""

    def __init__(self, items):
        self.items = list(items)
        self.iters = 0

    def __iter__(self):
        self.iters += 1
        return iter(list(self.items))


KINDS = {"list": list, "tuple": tuple, "reiter": ReIter}

# catalogue entries whose callbacks keep per-*build* state; replaced by the ':ps' entries below
STATEFUL = {"merge:mc1", "switch_latest", "merge_all", "while_do", "do_while"}


def extra_entries() -> list[Entry]:
    import reactivex
    from reactivex import operators as ops
    from reactivex.subject import Subject

    E: list[Entry] = []
    VA, CS = "value_agnostic", "cold_safe"

    def add(id, build, *flags):
        E.append(Entry(id, build, flags))

    def compose(*fs):
        return reactivex.compose(*fs)

    # ---- per-subscription scripts ------------------------------------------------------------
    def picker(K, name, tls):
        inner = [K.src(f"i{j + 1}", tl) for j, tl in enumerate(tls)]
        return lambda x: inner[min(_inc(box(K, name)), len(inner) - 1)]

    add("merge:mc1:ps", lambda K: compose(ops.map(picker(K, "pick", [X_two(K), X_empty(K), X_never(K)])), ops.merge(max_concurrent=1)), "higher", VA, CS, "ps")
    add("switch_latest:ps", lambda K: compose(ops.map(picker(K, "pick", [X_two(K), X_err(K), X_never(K)])), ops.switch_latest()), "higher", VA, CS, "ps")
    add("merge_all:ps", lambda K: compose(ops.map(picker(K, "pick", [X_two(K), X_empty(K), X_never(K)])), ops.merge_all()), "higher", VA, CS, "ps")
    add("while_do:ps", lambda K: ops.while_do(K.p("condition.c", lambda s: _inc(box(K, "n")) < 2)), "utility", VA, CS, "ps")
    add("do_while:ps", lambda K: ops.do_while(K.p("condition.c", lambda s: _inc(box(K, "n")) < 1)), "utility", VA, CS, "ps")

    def flaky(K):
        bad = K.src("bad", [(5, "N", K.C), (15, "E", "F")])
        return lambda src: reactivex.defer(lambda sch: bad if _inc(box(K, "tries")) < 2 else src)

    add("retry:3:flaky", lambda K: compose(flaky(K), ops.retry(3)), "utility", VA, CS, "ps")
    add("retry:2:flaky", lambda K: compose(flaky(K), ops.retry(2)), "utility", VA, CS, "ps")
    add("repeat:3+take:4", lambda K: compose(ops.repeat(3), ops.take(4)), "utility", VA, CS)

    # ---- argument kinds named by the statement -----------------------------------------------
    add("rx.concat:varargs", lambda K: (lambda src, x=K.src("x", X_two(K)): reactivex.concat(src, x)), "multi", VA, CS, "argkind")
    add("rx.catch:varargs", lambda K: (lambda src, y=K.src("y", X_err(K)), x=K.src("x", X_two(K)): reactivex.catch(src, y, x)), "multi", VA, CS, "argkind")
    add("rx.on_error_resume_next:varargs", lambda K: (lambda src, y=K.src("y", X_err(K)), x=K.src("x", X_two(K)): reactivex.on_error_resume_next(src, y, x)), "multi", VA, CS, "argkind")
    add("rx.on_error_resume_next:factory", lambda K: (lambda src, x=K.src("x", X_two(K)): reactivex.on_error_resume_next(src, K.p("factory.f", lambda e: x))), "multi", VA, CS, "argkind")
    for kn, kf in KINDS.items():
        add(f"rx.concat_with_iterable:{kn}", lambda K, kf=kf: (lambda src, x=K.src("x", X_two(K)): reactivex.concat_with_iterable(kf([src, x]))), "multi", VA, CS, "argkind")
        add(f"rx.catch_with_iterable:{kn}", lambda K, kf=kf: (lambda src, y=K.src("y", X_err(K)), x=K.src("x", X_two(K)): reactivex.catch_with_iterable(kf([src, y, x]))), "multi", VA, CS, "argkind")
        add(f"rx.for_in:{kn}", lambda K, kf=kf: (lambda src, x=K.src("x", X_two(K)): reactivex.for_in(kf([0, 1]), K.p("mapper.f", lambda i: (src, x)[i]))), "multi", VA, CS, "argkind")
        if kn != "list":  # the list form is the catalogue's 'zip_with_iterable'
            add(f"zip_with_iterable:{kn}", lambda K, kf=kf: ops.zip_with_iterable(kf([K.C, K.A])), "multi", VA, CS, "argkind")
    # ---- indexed variants / factories the catalogue does not instantiate ---------------------
    add("switch_map_indexed", lambda K: ops.switch_map_indexed(K.p("mapper.f", lambda x, i, inner=K.src("i", X_two(K)): inner.pipe(ops.map(lambda y: (y, i))))), "higher", VA, CS)
    add("starmap_indexed", lambda K: compose(ops.map(lambda x: (x, 7)), ops.starmap_indexed(K.p("mapper.f", lambda a, i: [a, i]))), "elementwise", VA, CS)
    add("flat_map_indexed:idx", lambda K: ops.flat_map_indexed(K.p("mapper.f", lambda x, i, inner=K.src("i", [(5, "N", K.C), (15, "C", None)]): inner.pipe(ops.map(lambda y: (y, i))))), "higher", VA, CS)
    add("skip_while_indexed:val", lambda K: ops.skip_while_indexed(K.p("predicate.p", lambda x, i: K.u(x) == 1 and i < 2)), "elementwise", VA, CS)
    add("take_while_indexed:val", lambda K: ops.take_while_indexed(K.p("predicate.p", lambda x, i: K.u(x) != 2 or i < 1)), "elementwise", VA, CS, "early")
    add("filter_indexed:val", lambda K: ops.filter_indexed(K.p("predicate.p", lambda x, i: K.u(x) != 1 or i > 0)), "elementwise", VA, CS)
    add("tap", lambda K: ops.tap(K.p("action.n", lambda x: None), K.p("action.e", lambda e: None), K.p("action.c", lambda: None)), "utility", VA, CS)

    def obsv(K):
        from reactivex.observer import Observer

        return Observer(K.p("action.n", lambda x: None), K.p("action.e", lambda e: None), K.p("action.c", lambda: None))

    add("do:observer", lambda K: ops.do(obsv(K)), "utility", VA, CS)

    class Attr:
        def __init__(self, v):
            self.attr = v

    add("pluck_attr", lambda K: compose(ops.map(lambda x: Attr(x)), ops.pluck_attr("attr")), "elementwise", VA, CS)
    add("single_or_default_async:C", lambda K: ops.single_or_default_async(True, K.C), "aggregate", VA, CS)
    add("skip_last:2", lambda K: ops.skip_last(2), "elementwise", VA, CS)
    add("default_if_empty", lambda K: ops.default_if_empty(), "elementwise", VA, CS)
    add("last_or_default", lambda K: ops.last_or_default(), "aggregate", VA, CS)
    add("first_or_default:neA:C", lambda K: ops.first_or_default(K.p("predicate.p", lambda x: K.u(x) != 1), K.C), "aggregate", VA, CS, "early")
    add("scan:pair:seedC", lambda K: ops.scan(K.p("accumulator.a", lambda acc, x: (acc, x)), K.C), "aggregate", VA, CS)
    add("reduce:pair:seedC", lambda K: ops.reduce(K.p("accumulator.a", lambda acc, x: (acc, x)), K.C), "aggregate", VA, CS)
    # ---- connectables (C44) ------------------------------------------------------------------
    add("publish", lambda K: ops.publish(), "multicast", "connectable", VA)
    add("replay:2", lambda K: ops.replay(buffer_size=2, scheduler=K.sched), "multicast", "connectable", VA)
    add("replay:all", lambda K: ops.replay(scheduler=K.sched), "multicast", "connectable", VA)
    add("publish_value:C", lambda K: ops.publish_value(K.C), "multicast", "connectable", VA)

    def rc_over(mk):
        def build(K):
            rc = ops.ref_count()  # the one operator object under test
            return lambda src: rc(mk(K)(src))  # the connectable below it is fresh per application

        return build

    add("ref_count:over-publish", rc_over(lambda K: ops.publish()), "multicast", VA)
    # multicast(subject=...) with a subject that is fresh per application (created by the wrapper, not shared by the caller)
    add("ref_count:over-multicast-fresh-subject", rc_over(lambda K: (lambda src: ops.multicast(subject=Subject())(src))), "multicast", VA)
    add("publish_value:C:mapper", lambda K: ops.publish_value(K.C, K.p("mapper.m", lambda o: o.pipe(ops.map(lambda x: [x])))), "multicast", VA, CS)
    return E


_ALL: dict[str, Entry] | None = None


def entries() -> dict[str, Entry]:
    """catalogue + extras, by id (insertion order = enumeration order)."""
    global _ALL
    if _ALL is None:
        d = {e.id: e for e in catalogue.catalogue()}
        for e in extra_entries():
            assert e.id not in d, e.id
            d[e.id] = e
        _ALL = d
    return _ALL


# ------------------------------------------------------------------------------- normalisation

class Sym:
    """Opaque ordinary (truthy, hashable, identity-compared) element standing for an abstract symbol."""

    __slots__ = ("n",)

    def __init__(self, n: int):
        self.n = n

    def __repr__(self):
        return "<%s>" % "?ABC"[self.n]


def nv(v: Any, leaf: Callable[[Any], Any] | None = None, rebase=None, inner: Callable[[Any], Any] | None = None) -> Any:
    """R2 normalisation (type and ==), structural through containers, notifications and dataclasses.
    leaf: maps opaque leaves before normalising (C08); rebase: (sched, t0) turns datetimes into offsets
    from t0 (C04 'clockvalue'); inner: placeholder for observables handed out as values."""
    from reactivex import Observable
    from reactivex.notification import Notification

    def go(x, depth=0):
        if depth > 20:
            return ("deep", repr(x))
        if leaf is not None:
            y = leaf(x)
            if y is not x:
                return vt.norm_value(y)
        if isinstance(x, Observable):
            return inner(x) if inner is not None else ("observable", type(x).__name__)
        if isinstance(x, Notification):
            if x.kind == "N":
                return ("OnNext", go(x.value, depth + 1))
            if x.kind == "E":
                return ("OnError", go(x.exception, depth + 1))
            return ("OnCompleted",)
        if isinstance(x, _dt.datetime) and rebase is not None:
            sched, t0 = rebase
            return ("clock", round((x - sched.to_datetime(t0)).total_seconds(), 6))
        if isinstance(x, BaseException):
            return vt.norm_value(x)
        if isinstance(x, (list, tuple)):
            return (type(x).__name__, tuple(go(i, depth + 1) for i in x))
        if isinstance(x, dict):
            return ("dict", tuple((go(k, depth + 1), go(w, depth + 1)) for k, w in x.items()))
        if isinstance(x, (set, frozenset)):
            return (type(x).__name__, tuple(sorted((go(i, depth + 1) for i in x), key=repr)))
        if dataclasses.is_dataclass(x) and not isinstance(x, type):
            return (type(x).__name__, tuple((f.name, go(getattr(x, f.name), depth + 1)) for f in dataclasses.fields(x)))
        if isinstance(x, Sym):
            return ("Sym", x.n)
        return vt.norm_value(x)

    return go(v)


def find_observables(v: Any, depth: int = 0):
    from reactivex import Observable

    if isinstance(v, Observable):
        yield v
    elif isinstance(v, (tuple, list)) and depth < 3:
        for i in v:
            yield from find_observables(i, depth + 1)


# ------------------------------------------------------------------------------- running

class Sub:
    """One subscriber: outer recorder + recorders of every observable it was handed."""

    def __init__(self, env, name, ctx):
        self.env, self.name, self.ctx = env, name, ctx
        self.rec = env.recorder(name)
        self.inner: list[vt.Recorder] = []
        self.inner_ids: dict[int, int] = {}
        self.inner_keep: list = []
        self.rec.on_next_hook = self._hook
        self.t0: float | None = None

    def _hook(self, value, k):
        for o in find_observables(value):
            if id(o) in self.inner_ids:
                continue
            ir = self.env.recorder(f"{self.name}.inner{len(self.inner)}")
            self.inner_ids[id(o)] = len(self.inner)
            self.inner_keep.append(o)
            self.inner.append(ir)
            ir.subscription = o.subscribe(ir, scheduler=self.env.sched)

    def subscribe(self, obs):
        sched = self.env.sched
        prev = getattr(sched, "ctx", None)
        sched.ctx = self.ctx
        try:
            self.t0 = sched._clock
            self.rec.subscription = obs.subscribe(self.rec, scheduler=sched)
        finally:
            sched.ctx = prev

    def dispose(self):
        self.rec.dispose()
        for ir in self.inner:
            ir.dispose()

    def view(self, rel: float = 0.0, until: float | None = None, leaf=None, rebase=None):
        """(outer events, [inner events]) with times relative to `rel`, only events before `until` (relative)."""

        def ph(o):
            i = self.inner_ids.get(id(o))
            key = getattr(o, "key", None)
            return ("inner", i, nv(key, leaf)) if hasattr(o, "key") else ("inner", i)

        def evs(r):
            out = []
            for (t, k, v) in r.events():
                if until is not None and t - rel >= until:
                    continue
                out.append((round(t - rel, 6), k, nv(v, leaf, rebase, ph)))
            return out

        return (evs(self.rec), [evs(ir) for ir in self.inner])


class Run:
    pass


def build_pipeline(env, ents: list[Entry], src, alphabet, unrename, sub, source_kind="cold", kits=None):
    obs = src
    for si, e in enumerate(ents):
        K = Kit(env, source_kind, alphabet, unrename, si, sub)
        if kits is not None:
            kits.append(K)
        obs = e.build(K)(obs)
    return obs


def run_pipeline(ents: list[Entry], timeline, sub_times, *, alphabet=(1, 2, 3), unrename=None, horizon=vt.HORIZON,
                 dispose_after: float | None = None, budget: int = 20000, source_kind: str = "cold") -> Run:
    """Build the pipeline ONCE over a Logged source and subscribe the same observable object at every
    instant of sub_times (equal instants: consecutive actions of one instant)."""
    env = vt.Env(sched=CtxScheduler(budget))
    R = Run()
    R.env = env
    first = min(sub_times)
    if source_kind == "hot":
        src = env.hot("main", [(first + t, k, v) for (t, k, v) in timeline])
    else:
        src = env.cold("main", timeline)
    R.main = src
    R.kits = []
    obs = build_pipeline(env, ents, src, alphabet, unrename, first, source_kind, R.kits)
    R.obs = obs
    R.subs = []
    for k, st in enumerate(sub_times):
        s = Sub(env, f"out{k}", ("sub", k))
        R.subs.append(s)
        if dispose_after is not None:
            env.at(st + dispose_after, s.dispose)  # queued before any source exists: first in its instant
        env.at(st, lambda s=s: s.subscribe(obs))
    R.status = env.run(horizon)
    return R


def show(view, limit=400):
    s = repr(view)
    return s if len(s) <= limit else s[:limit] + "..."
