"""Engine self-tests run by setup.sh: each engine must flag a seeded known-bad toy and stay
silent on its repaired twin; E3 must replay a schedule deterministically."""
from __future__ import annotations

import sys
import time

from . import core

core.bind_repo()
from . import hbfs, ilv, tlabind, vt  # noqa: E402


def t_vt():
    from reactivex import Observable
    from reactivex.disposable import Disposable

    for bad in (True, False):
        env = vt.Env()

        def sub(o, s=None):
            o.on_next(1)
            o.on_completed()
            if bad:
                # bypass the auto-detach wrapper on purpose: a recorder must notice
                rec.on_next(2)
            return Disposable()

        rec = env.recorder("out")
        env.subscribe_at(200, lambda: Observable(sub), rec)
        env.run()
        g = rec.grammar_violation()
        assert bool(g) == bad, ("vt grammar oracle", bad, g)
    # budget is a BaseException and stops a runaway run
    env = vt.Env(budget=50)

    def loop(s, st=None):
        env.sched.schedule(loop)

    env.sched.schedule_absolute(1, loop)
    assert env.run() == "budget"


def t_hbfs():
    class Toy:
        def __init__(self, bad):
            self.items, self.bad = [], bad

        def push(self, x):
            self.items.append(x)
            if self.bad and len(self.items) == 3:
                self.items.pop(0)  # silently drops an element at depth 3

    for bad in (True, False):
        def build(h):
            t = Toy(bad)
            for e in h:
                t.push(e)
            return (t, list(h))

        r = hbfs.bfs(build, lambda h, w: [1, 2], lambda w, h: None if w[0].items == w[1] else "lost element", lambda w: w[0], 4)
        assert bool(r.violations) == bad, ("hbfs", bad, r.violations[:1])
        if bad:
            assert len(r.violations[0][0]) == 3, "BFS must report a shortest counterexample"
    a, b = [1, [2]], [1, [2]]
    assert hbfs.canon((a, a)) != hbfs.canon((a, b)), "aliasing must be visible in the canonical heap"
    assert hbfs.canon((a, b)) == hbfs.canon((b, a)), "isomorphic heaps must merge"


class _Racy:
    name, sig = "selftest-racy", "selftest"
    focus: list = []

    def __init__(self, locked):
        self.locked = locked

    def setup(self, run):
        return {"n": 0, "lock": ilv.CLock()}

    def bodies(self, st):
        def body():
            if self.locked:
                st["lock"].acquire()
            v = st["n"]
            ilv.point("between-read-and-write")
            st["n"] = v + 1
            if self.locked:
                st["lock"].release()

        return [body, body]

    def check(self, x):
        return []


def t_ilv():
    ilv.install()
    for locked in (False, True):
        for PB in (0, 1):
            bad = []
            st, _ = ilv.explore(_Racy(locked), PB, 0, lambda x: bad.append(list(x.choices)) if x.state["n"] != 2 else None)
            expect = (not locked) and PB >= 1
            assert bool(bad) == expect, ("ilv lost update", locked, PB, st.executions, bad[:1])
            if bad:
                x1, x2 = ilv.execute(_Racy(locked), bad[0]), ilv.execute(_Racy(locked), bad[0])
                assert x1.trace == x2.trace and x1.state["n"] == x2.state["n"] == 1, "replay must be deterministic"


def t_tla():
    dot = 'strict digraph G {\n1 [label="s",style = filled]\n1 -> 2 [label="A(1)",color="black"];\n2 -> 3 [label="Tau",color="black"];\n3 -> 4 [label="B(1)",color="black"];\n}'
    g = tlabind.Graph(dot)
    assert g.accepts(["A(1)", "B(1)"], lambda l: l == "Tau")[0]
    assert not g.accepts(["B(1)"], lambda l: l == "Tau")[0]


def main() -> int:
    t0 = time.time()
    for t in (t_vt, t_hbfs, t_ilv, t_tla):
        t()
        print(f"selftest {t.__name__[2:]} ok")
    print(f"selftests ok in {time.time() - t0:.1f}s")
    return 0


if __name__ == "__main__":
    sys.exit(main())
