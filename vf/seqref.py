"""Reference simulators and harness shared by C10 (sequential composition), C11 (merge
family) and C12 (switch family).

A *case* is a JSON-able descriptor

    {"op": <builder id>, "params": {...},
     "sources": {name: [kind, timeline]},      kind: cold | hot | iter (hidden from_iterable-like)
     "resolve": [names whose on_next values are *names* of other sources and must be replaced
                 by the observable objects before the run],
     "sub": <subscription instant>, "take": k|None, "ps": pass scheduler to subscribe?}

The oracle is a nondeterministic event simulator (DESIGN §3.1): a `Sim` holds the model
side's open subscriptions (each with the absolute-time event list the source will
deliver), the clock, the expected output and the expected subscription log; a *model*
(SeqModel / MergeModel / SwitchModel) is a few lines stating the property's rule in terms of
`sim.subscribe / sim.unsubscribe / sim.emit`.  Whenever the next events of two different
subscriptions share a virtual instant the statement does not say which is first, so
`accepts()` searches every order that keeps each subscription's own order (rule R3) and
the real execution has to equal *one* of them: same output (instants, kinds, values by R2)
and same subscription log (sources in opening order, subscribe instants, close instants).
Synchronous notifications (offset None) are modelled as events in the subscribe instant.

Close instants are exact when the statement is the reason for the close (the source
terminated itself; the switch replaced it).  Subscriptions that are still open when the
output terminates or the run ends are only required to be closed by then or later
(releasing at termination is property C02's subject, not C10-C12's).
"""
from __future__ import annotations

import copy
from typing import Any

from . import vt

HORIZON = vt.HORIZON


class TieUnsupported(Exception):
    """The case generator produced an event at or after the horizon (a harness configuration
    error, never a verdict)."""


# ------------------------------------------------------------------ tapped sources

class _Tap:
    """Observer proxy that logs every delivery of one subscription (step, time, kind) into the
    subscription's SubLog so that 'terminated before the next was subscribed' is decidable by step."""

    __slots__ = ("o", "src", "idx")

    def __init__(self, o, src, idx):
        self.o, self.src, self.idx = o, src, idx

    def _log(self, kind):
        s = self.src.subs[self.idx]
        sch = self.src.sched
        st = sch.tick()
        s.setdefault("deliv", []).append((st, sch._clock, kind))
        if kind in "EC":
            s["term_step"], s["term_time"], s["term_kind"] = st, sch._clock, kind

    def on_next(self, v):
        self._log("N")
        self.o.on_next(v)

    def on_error(self, e):
        self._log("E")
        self.o.on_error(e)

    def on_completed(self):
        self._log("C")
        self.o.on_completed()


class TCold(vt.LoggedCold):
    def _subscribe_core(self, observer, scheduler=None):
        return super()._subscribe_core(_Tap(observer, self, len(self.subs)), scheduler)


class THot(vt.LoggedHot):
    def _subscribe_core(self, observer, scheduler=None):
        return super()._subscribe_core(_Tap(observer, self, len(self.subs)), scheduler)


def make_sources(env: vt.Env, case: dict) -> dict:
    """Create the harness sources of a case; 'iter' sources are plain lists (the operator
    under test turns them into observables itself)."""
    srcs: dict[str, Any] = {}
    resolve = set(case.get("resolve", ()))
    order = [n for n in case["sources"] if n not in resolve] + [n for n in case["sources"] if n in resolve]
    for name in order:
        kind, tl = case["sources"][name]
        tl = [tuple(x) for x in tl]
        if name in resolve:
            tl = [(t, k, (srcs[v] if k == "N" else v)) for (t, k, v) in tl]
        if kind == "cold":
            s = TCold(env, name, tl)
        elif kind == "hot":
            s = THot(env, name, tl)
        elif kind == "iter":
            srcs[name] = [v for (_, k, v) in tl if k == "N"]
            continue
        else:
            raise ValueError(kind)
        env.sources[name] = s
        srcs[name] = s
    return srcs


class Observation:
    __slots__ = ("status", "out", "subs", "raw_subs", "escaped", "grammar", "env", "rec")


def execute(case: dict, build) -> Observation:
    env = vt.Env(budget=20000)
    srcs = make_sources(env, case)
    rec = env.recorder("out")
    env.subscribe_at(case["sub"], lambda: build(env, srcs, case), rec, pass_scheduler=case.get("ps", True))
    ob = Observation()
    ob.status = env.run(HORIZON)
    ob.out = [(t, k, (vt.norm_value(v) if k != "C" else None)) for (t, k, v) in rec.events()]
    ob.raw_subs = list(env.sublog)
    ob.subs = [(s["source"], s["sub_time"], s["unsub_time"]) for s in env.sublog]
    ob.escaped = list(env.sched.escaped)
    ob.grammar = rec.grammar_violation()
    ob.env, ob.rec = env, rec
    return ob


# ------------------------------------------------------------------ simulator

class _Cfg:
    __slots__ = ("sources", "take", "horizon")


class Sim:
    """Model-side world.  subs entries: [tag, name, events, pos, open, logidx, maybe].
    `maybe` > pos: the head event is a hot source's event in the very instant of the subscription;
    whether the new subscriber still receives it depends on the order inside that instant, which no
    statement pins, so it may be skipped (only a prefix of such events can be skipped)."""

    __slots__ = ("cfg", "now", "subs", "out", "sublog", "done", "taken", "ntag", "model")

    def __init__(self, case: dict, model):
        cfg = _Cfg()
        cfg.sources = {n: (k, [tuple(x) for x in tl]) for n, (k, tl) in case["sources"].items()}
        cfg.take = case.get("take")
        cfg.horizon = HORIZON
        self.cfg = cfg
        self.now = case["sub"]
        self.subs: list[list] = []
        self.out: list[tuple] = []
        self.sublog: list[list] = []  # [name, sub_t, unsub_t, cause]
        self.done = False
        self.taken = 0
        self.ntag = 0
        self.model = model

    def clone(self) -> "Sim":
        s = Sim.__new__(Sim)
        s.cfg, s.now, s.done, s.taken, s.ntag = self.cfg, self.now, self.done, self.taken, self.ntag
        s.subs = [list(x) for x in self.subs]
        s.out = list(self.out)
        s.sublog = [list(x) for x in self.sublog]
        s.model = self.model.clone()
        return s

    def key(self):
        return (
            tuple((x[0], x[3], x[4], x[6]) for x in self.subs),
            self.model.key(),
            len(self.out),
            tuple(tuple(x) for x in self.sublog),
            self.done,
        )

    # ---- what a model may do -------------------------------------------------
    def subscribe(self, name: str) -> int:
        kind, tl = self.cfg.sources[name]
        evs = []
        maybe = 0
        if kind in ("cold", "iter"):
            for (off, k, v) in tl:
                evs.append((self.now if off is None else self.now + off, k, ("SrcError", (name, v)) if k == "E" else v))
                if k in "EC":
                    break
            if kind == "iter" and (not evs or evs[-1][1] != "C"):
                evs.append((self.now, "C", None))
        else:  # hot: absolute times, only what comes after (or, undetermined, in) the subscription instant
            for (t, k, v) in tl:
                if t == self.now:
                    maybe += 1
                if t >= self.now:
                    evs.append((t, k, ("SrcError", (name, v)) if k == "E" else v))
                if k in "EC":
                    break
        tag = self.ntag
        self.ntag += 1
        logidx = -1
        if kind != "iter":
            logidx = len(self.sublog)
            self.sublog.append([name, self.now, None, None])
        self.subs.append([tag, name, tuple(evs), 0, True, logidx, maybe])
        return tag

    def _close(self, sub, cause):
        if sub[4]:
            sub[4] = False
            if sub[5] >= 0:
                self.sublog[sub[5]][2] = self.now
                self.sublog[sub[5]][3] = cause

    def unsubscribe(self, tag: int, cause: str = "op") -> None:
        for sub in self.subs:
            if sub[0] == tag:
                self._close(sub, cause)

    def finish(self) -> None:
        for sub in self.subs:
            self._close(sub, "term")
        self.done = True

    def emit(self, kind: str, value: Any = None) -> None:
        if self.done:
            return
        if kind == "N":
            self.out.append((self.now, "N", vt.norm_value(value)))
            self.taken += 1
            if self.cfg.take is not None and self.taken >= self.cfg.take:
                self.out.append((self.now, "C", None))
                self.finish()
        else:
            self.out.append((self.now, kind, value if kind == "E" else None))
            self.finish()

    # ---- driver -------------------------------------------------------------
    def start(self) -> "Sim":
        self.model.start(self)
        return self

    def candidates(self) -> list[tuple[int, int]]:
        """Enabled actions (subscription index, mode): mode 0 = deliver the head event, 1 = skip it."""
        if self.done:
            return []
        tmin, idx = None, []
        for i, sub in enumerate(self.subs):
            if sub[4] and sub[3] < len(sub[2]):
                t = sub[2][sub[3]][0]
                if tmin is None or t < tmin:
                    tmin, idx = t, [i]
                elif t == tmin:
                    idx.append(i)
        if tmin is not None and tmin >= self.cfg.horizon:
            raise TieUnsupported("event at or after the horizon")
        out = []
        for i in idx:
            out.append((i, 0))
            if self.subs[i][3] < self.subs[i][6]:
                out.append((i, 1))
        return out

    def step(self, act: tuple[int, int]) -> None:
        i, mode = act
        sub = self.subs[i]
        t, k, v = sub[2][sub[3]]
        sub[3] += 1
        self.now = t
        if mode == 1:
            return
        sub[6] = 0
        if k in "EC":
            self._close(sub, "own")
        self.model.on_event(self, sub[0], sub[1], k, v)

    def finalize(self) -> None:
        if not self.done:
            self.now = self.cfg.horizon
            for sub in self.subs:
                self._close(sub, "horizon")
            self.done = True


def canonical(sim0: Sim) -> Sim:
    """One admissible linearisation (always the first candidate): used for messages."""
    sim = sim0.clone()
    while True:
        c = sim.candidates()
        if not c:
            sim.finalize()
            return sim
        sim.step(c[0])


def _subs_final_ok(model_log, act_subs) -> bool:
    if len(model_log) != len(act_subs):
        return False
    for (name, st, ut, cause), (aname, ast, aut) in zip(model_log, act_subs):
        if name != aname or st != ast:
            return False
        if aut is None:
            return False
        if cause in ("own", "op"):
            if aut != ut:
                return False
        elif aut < ut:
            return False
    return True


def accepts(sim0: Sim, act_out, act_subs, use_out: bool = True, use_subs: bool = True, stats: dict | None = None) -> bool:
    """Is the observation a member of the closure over all orders of simultaneous events?"""
    memo: set = set()
    n_lin = [0]

    def prefix_ok(sim: Sim, n_out: int, n_sub: int) -> bool:
        if use_out:
            new = sim.out[n_out:]
            if new and act_out[n_out:n_out + len(new)] != new:
                return False
        if use_subs:
            for j in range(n_sub, len(sim.sublog)):
                if j >= len(act_subs) or act_subs[j][0] != sim.sublog[j][0] or act_subs[j][1] != sim.sublog[j][1]:
                    return False
        return True

    def rec(sim: Sim) -> bool:
        while True:
            cands = sim.candidates()
            if len(cands) != 1:
                break
            n_out, n_sub = len(sim.out), len(sim.sublog)
            sim.step(cands[0])
            if not prefix_ok(sim, n_out, n_sub):
                return False
        if not cands:
            n_lin[0] += 1
            sim.finalize()
            if use_out and sim.out != act_out:
                return False
            if use_subs and not _subs_final_ok(sim.sublog, act_subs):
                return False
            if stats is not None:
                stats["witness"] = sim
            return True
        key = sim.key()
        if key in memo:
            return False
        memo.add(key)
        for c in cands:
            s2 = sim.clone()
            n_out, n_sub = len(sim.out), len(sim.sublog)
            s2.step(c)
            if prefix_ok(s2, n_out, n_sub) and rec(s2):
                return True
        return False

    sim = sim0.clone()
    ok = prefix_ok(sim, 0, 0) and rec(sim)
    if stats is not None:
        stats["branch_states"] = len(memo)
        stats["linearisations"] = n_lin[0]
    return ok


# ------------------------------------------------------------------ models

class SeqModel:
    """Sources consumed strictly one after another.  `cont` = terminal kinds on which the
    operator goes on to the next source; any other terminal is forwarded.  When the list is
    exhausted: end='C' completes; end='lastE' fails with the last error it continued on (or
    completes if there was none)."""

    def __init__(self, names, cont, end, cycle=None):
        self.names, self.cont, self.end, self.cycle = tuple(names), cont, end, cycle
        self.i = 0
        self.last_err = None

    def clone(self):
        return copy.copy(self)

    def key(self):
        return (self.i, self.last_err)

    def start(self, sim):
        self._next(sim)

    def _next(self, sim):
        name = self.cycle if self.cycle is not None else (self.names[self.i] if self.i < len(self.names) else None)
        if name is None:
            if self.end == "lastE" and self.last_err is not None:
                sim.emit("E", self.last_err)
            else:
                sim.emit("C")
            return
        self.i += 1
        sim.subscribe(name)

    def on_event(self, sim, tag, name, k, v):
        if k == "N":
            sim.emit("N", v)
        elif k in self.cont:
            if k == "E":
                self.last_err = v
            self._next(sim)
        else:
            sim.emit(k, v)


class MergeModel:
    """Inner sequences named by the outer's elements are subscribed on arrival while fewer than
    n are running (n None = no limit), otherwise queued and started in arrival order when a
    running one completes; every inner element is forwarded; completes when the outer and all
    inners completed; the first error terminates."""

    def __init__(self, outer, n):
        self.outer, self.n = outer, n
        self.outer_tag = None
        self.active = 0
        self.queue: tuple = ()
        self.outer_done = False

    def clone(self):
        return copy.copy(self)

    def key(self):
        return (self.active, self.queue, self.outer_done)

    def start(self, sim):
        self.outer_tag = sim.subscribe(self.outer)

    def on_event(self, sim, tag, name, k, v):
        if tag == self.outer_tag:
            if k == "N":
                if self.n is None or self.active < self.n:
                    self.active += 1
                    sim.subscribe(v)
                else:
                    self.queue = self.queue + (v,)
            elif k == "C":
                self.outer_done = True
                if self.active == 0:
                    sim.emit("C")
            else:
                sim.emit("E", v)
        elif k == "N":
            sim.emit("N", v)
        elif k == "E":
            sim.emit("E", v)
        else:
            if self.queue:
                nxt, self.queue = self.queue[0], self.queue[1:]
                sim.subscribe(nxt)
            else:
                self.active -= 1
                if self.outer_done and self.active == 0:
                    sim.emit("C")


class SwitchModel:
    """Only the most recently arrived inner is subscribed: its predecessor is unsubscribed in the
    instant the new one arrives; completes once the outer completed and the latest inner completed."""

    def __init__(self, outer):
        self.outer = outer
        self.outer_tag = None
        self.cur = None
        self.outer_done = False

    def clone(self):
        return copy.copy(self)

    def key(self):
        return (self.cur, self.outer_done)

    def start(self, sim):
        self.outer_tag = sim.subscribe(self.outer)

    def on_event(self, sim, tag, name, k, v):
        if tag == self.outer_tag:
            if k == "N":
                if self.cur is not None:
                    sim.unsubscribe(self.cur, "op")
                self.cur = sim.subscribe(v)
            elif k == "C":
                self.outer_done = True
                if self.cur is None:
                    sim.emit("C")
            else:
                sim.emit("E", v)
        elif tag == self.cur:
            if k == "N":
                sim.emit("N", v)
            elif k == "E":
                sim.emit("E", v)
            else:
                self.cur = None
                if self.outer_done:
                    sim.emit("C")


# ------------------------------------------------------------------ judging

def show_out(out) -> str:
    def one(e):
        t, k, v = e
        if k == "N":
            return f"{t:g}:{v[1] if isinstance(v, tuple) and len(v) == 2 else v!r}"
        if k == "E":
            return f"{t:g}:#{v[1][0] if isinstance(v, tuple) and v and v[0] == 'SrcError' else v!r}"
        return f"{t:g}:|"

    return "[" + " ".join(one(e) for e in out) + "]"


def show_subs(subs) -> str:
    return "[" + " ".join(f"{s[0]}@{s[1]:g}-{('open' if s[2] is None else format(s[2], 'g'))}" for s in subs) + "]"


def live_end_step(s) -> int | None:
    """Step from which a subscription no longer counts as running: its source delivered a
    terminal or it was unsubscribed, whichever came first."""
    c = [x for x in (s.get("term_step"), s.get("unsub_step")) if x is not None]
    return min(c) if c else None


def max_live(raw_subs, names=None) -> int:
    """Largest number of simultaneously running subscriptions (by global step) among `names`."""
    ev = []
    for s in raw_subs:
        if names is not None and s["source"] not in names:
            continue
        ev.append((s["sub_step"], 1))
        e = live_end_step(s)
        if e is not None:
            ev.append((e, -1))
    cur = best = 0
    for _, d in sorted(ev):
        cur += d
        best = max(best, cur)
    return best


def judge(case: dict, build, model_factory, extra=None):
    """Run the real pipeline and the reference; return (problems [(class, text)], observation, stats).
    stats["witness"] is the reference linearisation that equals the observation (or, on a mismatch,
    one admissible linearisation): non-triviality rules are evaluated on it, i.e. on what the
    reference says the case exercises, so they do not depend on the behaviour under test."""
    ob = execute(case, build)
    problems: list[tuple[str, str]] = []
    stats: dict = {}
    sim0 = Sim(case, model_factory(case)).start()
    if ob.status != "ok":
        problems.append(("budget", "run did not reach quiescence within the action budget"))
        stats["witness"] = canonical(sim0)
        return problems, ob, stats
    use_out = not case.get("out_free", False)
    if not accepts(sim0, ob.out, ob.subs, use_out=use_out, stats=stats):
        can = stats["witness"] = canonical(sim0)
        if use_out and not accepts(sim0, ob.out, ob.subs, use_out=True, use_subs=False):
            problems.append(("output", f"output {show_out(ob.out)} is not admissible; one admissible output is {show_out(can.out)}"))
        else:
            problems.append((
                "subscriptions",
                f"subscription log {show_subs(ob.subs)} is not admissible with output {show_out(ob.out)}; one admissible log is "
                f"{show_subs([(s[0], s[1], s[2]) for s in can.sublog])}",
            ))
    if ob.grammar:
        problems.append(("grammar", ob.grammar))
    if ob.escaped:
        problems.append(("escaped", f"exception escaped into the scheduler: {ob.escaped[0][1]!r}"))
    if extra is not None:
        problems.extend(extra(case, ob))
    return problems, ob, stats


def outcome_of(ob: Observation) -> str:
    return show_out(ob.out) + show_subs(ob.subs)
