"""E3 part shared by C20, C21, C23: a subscribe() racing the emitting thread of a subject.

Thread A subscribes a recording observer; thread B runs a short program of on_next /
on_completed / on_error / dispose.  Every interleaving up to the preemption bound, with
line-level scheduling points in the subject's source files.  Oracle (differential, no model):
the subscriber's log must equal the log of *some sequential placement* of the subscribe call
inside B's program, obtained by running the same real class on one thread — i.e. the
concurrent subscribe is atomic w.r.t. every notification ("subscribed at the time the call is
made", "a subscriber arriving after termination receives only the terminal notification").
"""
from __future__ import annotations

from . import ilv, ilvrun

FILES = {
    "Subject": ["subject/subject.py", "subject/innersubscription.py"],
    "BehaviorSubject": ["subject/behaviorsubject.py", "subject/subject.py", "subject/innersubscription.py"],
    "AsyncSubject": ["subject/asyncsubject.py", "subject/subject.py", "subject/innersubscription.py"],
    "ReplaySubject": ["subject/replaysubject.py", "subject/subject.py", "subject/innersubscription.py"],
}
PROGS_Q = [("C",), ("N1", "C"), ("N1", "E"), ("N1", "D"), ("N1", "N2")]
PROGS_T = PROGS_Q + [("E",), ("D",), ("N1", "N2", "C"), ("N1", "N2", "E"), ("N1", "C", "N2")]


def make(kind):
    from reactivex.subject import AsyncSubject, BehaviorSubject, ReplaySubject, Subject

    def replay():
        # two retained values: a racing subscriber must get them before anything live
        r = ReplaySubject(2)
        r.on_next(8)
        r.on_next(9)
        return r

    return {"Subject": Subject, "BehaviorSubject": lambda: BehaviorSubject(0), "AsyncSubject": AsyncSubject, "ReplaySubject": replay}[kind]()


class Err(Exception):
    pass


ERR = Err("e")


def apply(subject, op):
    from reactivex.internal.exceptions import DisposedException

    try:
        if op[0] == "N":
            subject.on_next(int(op[1]))
        elif op == "C":
            subject.on_completed()
        elif op == "E":
            subject.on_error(ERR)
        elif op == "D":
            subject.dispose()
    except DisposedException:
        pass


def subscribe(subject, log):
    from reactivex.internal.exceptions import DisposedException

    try:
        subject.subscribe(lambda v: log.append(("N", v)), lambda e: log.append(("E", type(e).__name__)), lambda: log.append(("C",)))
    except DisposedException:
        log.append(("raised", "DisposedException"))


def sequential_outcomes(kind, prog):
    outs = set()
    for pos in range(len(prog) + 1):
        s = make(kind)
        log: list = []
        for i, op in enumerate(prog):
            if i == pos:
                subscribe(s, log)
            apply(s, op)
        if pos == len(prog):
            subscribe(s, log)
        outs.add(tuple(log))
    return outs


def sequential_dispose_outcomes(kind, prog):
    """The subscriber is there from the start.  A dispose() running concurrently with a broadcast may take effect between any
    two notifications (also between the value and the completion one AsyncSubject.on_completed call delivers), so every prefix
    of the log without dispose is admissible - and nothing else."""
    s = make(kind)
    log: list = []
    s.subscribe(lambda v: log.append(("N", v)), lambda e: log.append(("E", type(e).__name__)), lambda: log.append(("C",)))
    for op in prog:
        apply(s, op)
    return {tuple(log[:i]) for i in range(len(log) + 1)}


class H:
    allow_thread_errors = False

    def __init__(self, kind, prog, mode="subscribe"):
        self.kind, self.prog, self.mode = kind, prog, mode
        self.name = f"subject-race|{kind}|" + ",".join(prog) + ("" if mode == "subscribe" else "|dispose")
        self.sig = f"{kind}-{mode}-race"
        self.focus = ilv.focus_files(*FILES[kind])
        self.admissible = None

    def setup(self, run):
        if self.admissible is None:
            self.admissible = (sequential_outcomes if self.mode == "subscribe" else sequential_dispose_outcomes)(self.kind, self.prog)
        st = {"s": make(self.kind), "log": []}
        if self.mode == "dispose":
            log = st["log"]
            st["d"] = st["s"].subscribe(lambda v: log.append(("N", v)), lambda e: log.append(("E", type(e).__name__)), lambda: log.append(("C",)))
        return st

    def bodies(self, st):
        def a():
            if self.mode == "dispose":
                st["d"].dispose()
                return
            subscribe(st["s"], st["log"])

        def b():
            for op in self.prog:
                apply(st["s"], op)

        return [a, b]

    def outcome(self, x):
        return tuple(x.state["log"])

    def nontrivial(self, x):
        return x.switches > 0

    def check(self, x):
        if x.outcome != "quiescent":
            return []
        got = tuple(x.state["log"])
        if got not in self.admissible:
            return [(f"{self.kind}|{self.mode}-race|not-atomic", f"{self.mode} racing {','.join(self.prog)}: subscriber got {list(got)}; every sequential placement of the {self.mode} call gives one of {sorted(map(list, self.admissible))}")]
        return []


DPROGS_Q = [("C",), ("N1", "E")]
DPROGS_T = [("C",), ("E",), ("N1", "C"), ("N1", "E"), ("N1", "N2"), ("N1", "D")]


def harnesses(kind, tier):
    return [H(kind, p) for p in (PROGS_Q if tier == "quick" else PROGS_T)] + [H(kind, p, "dispose") for p in (DPROGS_Q if tier == "quick" else DPROGS_T)]


def PB_of(tier, h):
    # the unsubscribe-vs-termination race needs two preemptions (test, other thread clears, remove); those harnesses are small
    if tier != "quick" or h.mode == "dispose" or (h.kind == "ReplaySubject" and h.prog == ("C",)):
        return 2
    return 1


def shard(part, shard_i, nshards, tier, seed, deadline, kind):
    ilv.install()
    for i, h in enumerate(harnesses(kind, tier)):
        if (i + seed) % nshards == shard_i:
            ilvrun.explore_all(part, [h], 0, 1, PB_of(tier, h), 0, deadline, horizon=5.0)


def run_part(ctx, kind):
    """Adds the E3 part to a subject check (after its BFS part); merges coverage keys."""
    before = ctx.total.counters.get("executions", 0)
    ctx.sharded(shard, extra=(kind,), nshards=len(harnesses(kind, ctx.tier)))
    ex = ctx.total.counters.get("executions", 0) - before
    ctx.cov["states"] = ctx.cov.get("states", 0) + ex
    ctx.cov["transitions"] = ctx.cov.get("transitions", 0) + ctx.total.counters.get("schedule_points", 0)
    ctx.cov["traces_validated_against_impl"] = ctx.cov.get("traces_validated_against_impl", 0) + ex
    ctx.cov["e3_subscribe_race"] = {"schedules_explored": ex, "coarse_executions": ctx.total.counters.get("coarse_executions", 0), "PB": {h.name: PB_of(ctx.tier, h) for h in harnesses(kind, ctx.tier)}}
    ctx.assumptions = list(ctx.assumptions) + ["E3 part: preemption at lock operations and line boundaries of the subject's source files; oracle = some sequential placement of "
                                               "subscribe() on the same real class (dispose family: some prefix of the undisturbed log); no exception may escape a call"]


def replay(kind, case):
    ilv.install()
    for tier in ("quick", "thorough"):
        for h in harnesses(kind, tier):
            if h.name == case["harness"]:
                h.admissible = (sequential_outcomes if h.mode == "subscribe" else sequential_dispose_outcomes)(h.kind, h.prog)
                return ilvrun.replay_harness(h, case)
    return []
