"""Driver for E3 checks: explores a catalogue of small harnesses, each exhaustively up to the
tier's preemption/tick bounds, confirms every failure by replaying its schedule twice,
and aggregates coverage into a core.Part.

A harness object provides: .name (unique, reconstructible id), .focus (files with line-level
scheduling points), .setup(run) -> state (non-preemptible prologue on managed thread 0),
.bodies(state) -> [callables] (one managed thread each), .check(run) -> [(signature, what)].
"""
from __future__ import annotations

import time

from . import core, ilv


def judge_factory(h, part: core.Part, PB, TB, extra_case=None, max_points=4000, horizon=50.0):
    def judge(x: ilv.Run):
        probs = list(h.check(x))
        if x.outcome == "deadlock":
            probs.append((f"{h.sig}|deadlock", f"deadlock: {x.deadlocked}"))
        elif x.outcome == "horizon" and not getattr(h, "allow_horizon", False):
            probs.append((f"{h.sig}|no-quiescence", "execution did not become quiescent within the step/clock horizon"))
        for t in x.threads:
            if t.error is not None and not getattr(h, "allow_thread_errors", False):
                probs.append((f"{h.sig}|thread-exception|{type(t.error).__name__}", f"exception escaped thread {t.name}: {t.error!r}"))
        key = (h.name + ("|coarse" if getattr(h, "lines_only", False) else ""), tuple(x.choices))
        outcome = h.outcome(x) if hasattr(h, "outcome") else x.outcome
        nontrivial = h.nontrivial(x) if hasattr(h, "nontrivial") else (x.switches > 0 and len(x.threads) > 2)
        part.case(key, nontrivial, outcome=(h.name, outcome), sample=None)
        if probs:
            # confirm: the same schedule must fail identically twice before it is believed
            x1 = ilv.execute(h, list(x.choices), max_points, horizon)
            x2 = ilv.execute(h, list(x.choices), max_points, horizon)
            p1, p2 = list(h.check(x1)), list(h.check(x2))
            if x1.trace != x.trace or x2.trace != x.trace:
                raise ilv.EngineError(f"non-deterministic replay of {h.name} {x.choices}")
            for sig, what in probs:
                part.violation(sig, f"{h.name}: {what}", {"harness": h.name, "choices": list(x.choices), "PB": PB, "TB": TB, "horizon": horizon, "max_points": max_points, "lines_only": bool(getattr(h, "lines_only", False))},
                               events=[list(map(str, e)) for e in x.events][:60], confirmed=bool(p1 or x1.outcome != "quiescent") and bool(p2 or x2.outcome != "quiescent"))

    return judge


def explore_all(part: core.Part, harnesses, shard, nshards, PB, TB, deadline, max_points=4000, horizon=50.0, coarse_pb=None):
    """Explore every harness with index = shard (mod nshards).  coarse_pb: in addition explore each harness again with that
    (higher) preemption bound in the coarse mode of ilv (switching only at line boundaries of the focus files, at explicit harness
    points and where threads block/start/end) - a sub-space of the normal mode's schedules that stays small at PB 2."""
    for i, h in enumerate(harnesses):
        if i % nshards != shard:
            continue
        if time.time() > deadline:
            part.complete = False
            return
        if coarse_pb is not None and getattr(h, "focus", None) and not getattr(h, "lines_only", False):
            h.lines_only = True
            before = part.counters.get("executions", 0)
            try:
                explore_all(part, [h], 0, 1, coarse_pb, TB, deadline, max_points, horizon)
            finally:
                h.lines_only = False
            part.count("coarse_executions", part.counters.get("executions", 0) - before)
            part.counters["harnesses"] = part.counters.get("harnesses", 1) - 1
        st, left = ilv.explore(h, PB, TB, judge_factory(h, part, PB, TB, None, max_points, horizon), deadline=deadline, max_points=max_points, horizon=horizon)
        if not st.complete:
            part.complete = False
        part.count("executions", st.executions)
        part.count("schedule_points", st.transitions)
        part.count("harnesses")
        part.counters["max_depth"] = max(part.counters.get("max_depth", 0), st.max_depth)
        if len(part.samples) < 2:
            part.samples.append({"harness": h.name, "executions": st.executions, "max_schedule_depth": st.max_depth, "PB": PB, "TB": TB})


def finish_cov(ctx: core.Ctx, agg: core.Part, extra_states: int = 0, extra_transitions: int = 0):
    """model_checking coverage keys from the aggregated counters."""
    ex = ctx.total.counters.get("executions", 0)
    ctx.cov["states"] = ctx.cov.get("states", 0) + ex + extra_states
    ctx.cov["transitions"] = ctx.cov.get("transitions", 0) + ctx.total.counters.get("schedule_points", 0) + extra_transitions
    ctx.cov["traces_validated_against_impl"] = ctx.cov.get("traces_validated_against_impl", 0) + ex
    ctx.cov["schedules_explored"] = ex
    ctx.cov["max_schedule_depth"] = ctx.total.counters.get("max_depth", 0)
    ctx.cov["states_note"] = (
        "states = complete schedules (leaf executions of the stateless search) plus BFS states of the single-thread "
        "history search; transitions = scheduling decisions taken plus BFS transitions; every execution runs the real code"
    )


def replay_harness(h, case):
    h.lines_only = bool(case.get("lines_only", getattr(h, "lines_only", False)))
    x = ilv.execute(h, list(case["choices"]), case.get("max_points", 4000), case.get("horizon", 50.0))
    print("outcome:", x.outcome, "choices:", x.choices)
    for e in x.events:
        print("  ", e)
    probs = list(h.check(x))
    if x.outcome == "deadlock":
        probs.append((f"{h.sig}|deadlock", f"deadlock: {x.deadlocked}"))
    for t in x.threads:
        if t.error is not None and not getattr(h, "allow_thread_errors", False):
            probs.append((f"{h.sig}|thread-exception|{type(t.error).__name__}", f"exception escaped thread {t.name}: {t.error!r}"))
    return [{"signature": s, "what": w, "detail": [list(map(str, e)) for e in x.events][:60]} for s, w in probs]
