"""Single source of truth for MANIFEST.json (tools/gen_manifest.py)."""

HOOK_COMMITS: list = []

NOTES = (
    "All checks are bounded-exhaustive explorations of the real library code (no sampling): see DESIGN.md. "
    "Genuine defects are listed in known_findings.json (kind 'known' -> KNOWN-FINDING line, kind 'fixed' -> repaired by a fix: commit)."
)

ENGINES = [
    {"name": "vtx", "path": "vf/vt.py", "kind_free_text": "E1: bounded-exhaustive virtual-time exploration of real operator pipelines against reference models",
     "serves_properties": []},
    {"name": "hbfs", "path": "vf/hbfs.py", "kind_free_text": "E2: explicit-state BFS over call histories of real objects with heap-canonical state de-duplication",
     "serves_properties": []},
    {"name": "ilv", "path": "vf/ilv.py", "kind_free_text": "E3: preemption-bounded exhaustive interleaving exploration of real threads under a controlled scheduler and clock",
     "serves_properties": []},
    {"name": "tla", "path": "vf/tla", "kind_free_text": "E4: TLC models bound to the implementation by trace inclusion",
     "serves_properties": []},
]

NOT_CLAIMED: dict = {}

_E1_NOTE = "trusted: CPython, the harness in /verif/vf, the reference model, VirtualTimeScheduler's queue discipline (itself checked by C28/C29); bounded alphabets and timeline lengths as stated in the evidence"

CHECKS = {
    "C05": {
        "engine": "vtx", "level": "exploration",
        "technique": "bounded-exhaustive enumeration of (operator instance, timeline) pairs on virtual time against Python list references",
        "text": "every listed element-wise operator, every parameter of its catalogue, every timeline of length <=N over a small alphabet (incl. None/0/False) ending in completion or error is executed on the real operator and compared value-by-value and instant-by-instant with a list reference; exhaustive within N",
        "note": _E1_NOTE,
    },
}
for _k, _v in CHECKS.items():
    for _e in ENGINES:
        if _e["name"] == _v["engine"]:
            _e["serves_properties"].append(_k)
