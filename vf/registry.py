"""Single source of truth for MANIFEST.json (tools/gen_manifest.py)."""

HOOK_COMMITS: list = []

NOTES = (
    "All checks are bounded-exhaustive explorations of the real library code (no sampling): see DESIGN.md. "
    "Genuine defects are listed in known_findings.json (kind 'known' -> KNOWN-FINDING line, kind 'fixed' -> repaired by a fix: commit)."
)

ENGINES = [
    {"name": "vtx", "path": "vf/vt.py", "kind_free_text": "E1: bounded-exhaustive virtual-time exploration of real operator pipelines against reference models",
     "serves_properties": []},
    {"name": "hbfs", "path": "vf/hbfs.py", "kind_free_text": "E2: explicit-state BFS over call histories of real objects with heap-canonical state de-duplication",
     "serves_properties": []},
    {"name": "ilv", "path": "vf/ilv.py", "kind_free_text": "E3: preemption-bounded exhaustive interleaving exploration of real threads under a controlled scheduler and clock",
     "serves_properties": []},
    {"name": "enum", "path": "vf/checks", "kind_free_text": "plain bounded-exhaustive input enumeration against an independent reference (no scheduler involved)",
     "serves_properties": []},
    {"name": "tla", "path": "vf/tla", "kind_free_text": "E4: TLC models bound to the implementation by trace inclusion",
     "serves_properties": []},
]

NOT_CLAIMED: dict = {}

# Checks are claimed in MANIFEST.json only once the lead has reviewed them on the unchanged tree.
READY = ["C01", "C02", "C03", "C04", "C05", "C06", "C07", "C08", "C09", "C10", "C11", "C12", "C13", "C14", "C15", "C16", "C17", "C18", "C19", "C20", "C21", "C22", "C23", "C24", "C25", "C26", "C27", "C28", "C29", "C30", "C31", "C32", "C33", "C34", "C35", "C36", "C37", "C38", "C39", "C40", "C41", "C42", "C43", "C44"]
