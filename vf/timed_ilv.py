"""E3 parts of C15 / C16 / C17: time operators on a real-time scheduler, source on its own thread.

The operator is given a TimeoutScheduler (every timer a controlled thread) or an
EventLoopScheduler (one controlled worker thread); the source is a Subject driven by a
managed thread that follows a tiny program of (sleep, notification) steps on the controlled
clock.  The interesting programs put a source notification into the very instant in which a
timer of the operator is due, so that the timer thread and the source thread race.  Every
interleaving up to the preemption bound, with line-level scheduling points in the operator's
file.  Downstream notifications are recorded with the clock reading.

Oracles: only consequences of the statements that hold for *every* order of the two racing
threads (ties between a timer and a source notification in the same instant may go either
way, but the result must be one the statement allows for one of the two orders):

  debounce / throttle_with_mapper   output = order-preserving subsequence without repeats; the
      element pending at completion is flushed (the last element is never lost); an element
      followed by a newer one strictly inside the due time is not emitted; ends like the source
  sample                            order-preserving subsequence without repeats; the last element
      is sampled before the completion; ends like the source
  timeout / timeout_with_mapper     elements are forwarded until the switch; the timeout may fire
      only when >= due time passed since the last *forwarded* element (or subscription); after
      it nothing of the source is forwarded; without a timeout the source's terminal is forwarded
  take_with_time / skip_with_time   elements strictly before the boundary pass / are dropped,
      strictly after are dropped / pass; completion at min(boundary, source completion)
  delay / delay_with_mapper         every element exactly d later, in order; completion d later
  delay_subscription                elements emitted after the (delayed) subscription pass unchanged
"""
from __future__ import annotations

from . import ilv, ilvrun

D = 1.0  # every due time / period / boundary


class Boom(Exception):
    pass


def build(op, s):
    import reactivex
    from reactivex import operators as ops

    T = lambda: reactivex.timer(D, scheduler=s)  # noqa: E731
    return {
        "debounce": lambda: ops.debounce(D, scheduler=s),
        "throttle_with_mapper": lambda: ops.throttle_with_mapper(lambda _: T()),
        "sample": lambda: ops.sample(D, scheduler=s),
        "timeout": lambda: ops.timeout(D, scheduler=s),
        "timeout_other": lambda: ops.timeout(D, reactivex.of("other"), scheduler=s),
        "timeout_with_mapper": lambda: ops.timeout_with_mapper(T(), lambda _: T()),
        "take_with_time": lambda: ops.take_with_time(D, scheduler=s),
        "skip_with_time": lambda: ops.skip_with_time(D, scheduler=s),
        "delay": lambda: ops.delay(D, scheduler=s),
        "delay_with_mapper": lambda: ops.delay_with_mapper(lambda _: T()),
        "delay_subscription": lambda: ops.delay_subscription(D, scheduler=s),
    }[op]()


FOCUS = {
    "debounce": ["operators/_debounce.py"],
    "throttle_with_mapper": ["operators/_debounce.py"],
    "sample": ["operators/_sample.py"],
    "timeout": ["operators/_timeout.py"],
    "timeout_other": ["operators/_timeout.py"],
    "timeout_with_mapper": ["operators/_timeoutwithmapper.py"],
    "take_with_time": ["operators/_takewithtime.py"],
    "skip_with_time": ["operators/_skipwithtime.py"],
    "delay": ["operators/_delay.py"],
    "delay_with_mapper": ["operators/_delaywithmapper.py"],
    "delay_subscription": ["operators/_delaysubscription.py"],
}
PROPERTY_OF = {
    "C15": ("delay", "delay_with_mapper", "delay_subscription"),
    "C16": ("debounce", "throttle_with_mapper", "sample"),
    "C17": ("timeout", "timeout_other", "timeout_with_mapper", "take_with_time", "skip_with_time"),
}
# source programs: (sleep before, kind); element values are 0, 1, 2, ... in order
PROGRAMS = {
    "tie": [(0, "N"), (D, "N"), (0, "C")],          # second element exactly when the first timer is due
    "tieC": [(0, "N"), (D, "C")],                    # completion exactly when the timer is due
    "half": [(0, "N"), (D / 2, "N"), (0, "C")],      # second element strictly inside the due time
    "tieE": [(0, "N"), (D, "E")],
    "late": [(0, "N"), (D, "N"), (D, "N"), (0, "C")],
    "tie2": [(0, "N"), (D, "N"), (D / 2, "C")],      # like tie, but the source lives on for a while after the racing element
    "tie3": [(0, "N"), (D, "N"), (D / 2, "N"), (0, "C")],  # ... and supersedes the racing element inside its due time
}


class H:
    allow_thread_errors = False

    def __init__(self, op, sched, prog):
        self.op, self.sched, self.prog = op, sched, prog
        self.name = f"timed-threads|{op}|{sched}|{prog}"
        self.sig = "timed-threads"
        self.focus = ilv.focus_files(*FOCUS[op])
        # interval() re-arms itself for ever; an EventLoopScheduler's worker waits for work until the scheduler is disposed
        self.needs_stop = op == "sample" or sched == "eventloop"

    def setup(self, run):
        from reactivex.scheduler import EventLoopScheduler, TimeoutScheduler
        from reactivex.subject import Subject

        st = {"out": [], "src": [], "subj": Subject(), "run": run}
        s = st["sch"] = TimeoutScheduler() if self.sched == "timeout" else EventLoopScheduler()
        out = st["out"]
        clk = lambda: round(run.clock, 6)  # noqa: E731
        st["d"] = st["subj"].pipe(build(self.op, s)).subscribe(
            lambda v: out.append((clk(), "N", v)), lambda e: out.append((clk(), "E", type(e).__name__)), lambda: out.append((clk(), "C", None)))
        return st

    def bodies(self, st):
        run = st["run"]

        def src():
            me, n = ilv.cur(), 0
            for gap, k in PROGRAMS[self.prog]:
                if gap:
                    run.block(me, lambda: False, run.clock + gap, "sleep")
                st["src"].append((round(run.clock, 6), k, n if k == "N" else None, len(st["out"])))
                if k == "N":
                    st["subj"].on_next(n)
                    n += 1
                elif k == "C":
                    st["subj"].on_completed()
                else:
                    st["subj"].on_error(Boom("src"))

        def stopper():
            run.block(ilv.cur(), lambda: False, 3 * D + D / 2, "sleep")
            st["d"].dispose()
            if self.sched == "eventloop":
                st["sch"].dispose()

        return [src, stopper] if self.needs_stop else [src]

    def outcome(self, x):
        return tuple(x.state["out"])

    def nontrivial(self, x):
        return x.switches > 0

    # ------------------------------------------------------------------ oracles
    def check(self, x):
        if x.outcome != "quiescent":
            return []
        st = x.state
        out, src = list(st["out"]), list(st["src"])
        op, P = self.op, []
        shown = [(t, v if k == "N" else k) for (t, k, v) in out]
        srcshown = [(t, v if k == "N" else k) for (t, k, v, _) in src]

        def bad(cls, text):
            P.append((f"{op}|threads|{cls}", f"{text}; source {srcshown}, downstream {shown} (scheduler {self.sched})"))

        terms = [i for i, o in enumerate(out) if o[1] != "N"]
        if terms and terms[0] != len(out) - 1:
            bad("grammar", "notification after the terminal one")
        vals = [v for (_, k, v) in out if k == "N"]
        elems = [(t, v) for (t, k, v, _) in src if k == "N"]
        sterm = next(((t, k) for (t, k, _, _) in src if k != "N"), None)
        ended = out[-1][1] if terms else None
        ended_t = out[-1][0] if terms else None
        evals = [v for (_, v) in elems]
        subseq = [v for v in evals if v in vals] == vals and len(set(vals)) == len(vals)
        if op in ("debounce", "throttle_with_mapper", "sample"):
            if not subseq:
                bad("not-a-subsequence", "the output must be an order-preserving selection of the source's elements")
            if sterm and sterm[1] == "C":
                if evals and evals[-1] not in vals:
                    bad("pending-element-lost", f"the source completed with {evals[-1]} pending / not yet sampled, it was never emitted")
                if ended != "C":
                    bad("never-completed", "the source completed")
            if sterm and sterm[1] == "E" and ended != "E":
                bad("error-not-delivered", "the source failed")
            if op != "sample":
                for (t, v), (t2, _) in zip(elems, elems[1:]):
                    if t2 - t < D - 1e-9 and v in vals:
                        bad("emitted-although-superseded", f"{v} was followed by a newer element after {t2 - t} < {D}")
                for (t, v) in elems:
                    for (to, k, vo) in out:
                        if k == "N" and vo == v and to < min(t + D, sterm[0] if sterm else 1e9) - 1e-9:
                            bad("emitted-early", f"{v} arrived at {t} and was emitted at {to}")
        elif op in ("timeout", "timeout_other", "timeout_with_mapper"):
            fallback = op == "timeout_other"
            fwd = [v for v in vals if v != "other"]
            if fwd != evals[: len(fwd)]:
                bad("not-a-prefix", "the forwarded elements must be a prefix of the source's")
            timed_out = ("other" in vals) if fallback else (ended == "E" and out[-1][2] != "Boom")
            if timed_out:
                t_fire = next(t for (t, k, v) in out if (v == "other" if fallback else k == "E"))
                last = max([t for (t, v) in elems if v in fwd] + [0.0])
                if t_fire < last + D - 1e-9:
                    bad("timeout-fired-early", f"timeout at {t_fire} although an element had been forwarded at {last} (due time {D})")
                if sterm and sterm[0] < t_fire - 1e-9:
                    bad("timeout-after-source-terminated", f"source terminated at {sterm[0]}, timeout fired at {t_fire}")
                pos = next(i for i, (t, k, v) in enumerate(out) if (v == "other" if fallback else k == "E"))
                if any(k == "N" and v != "other" for (_, k, v) in out[pos:]):
                    bad("source-element-after-timeout", "a source element was forwarded after the switch")
            else:
                if fwd != evals:
                    bad("element-lost", "no timeout fired but not every element was forwarded")
                if sterm and ended != sterm[1]:
                    bad("terminal-lost", f"no timeout fired, the source ended with {sterm[1]}")
                gaps = [b[0] - a[0] for a, b in zip([(0.0,)] + [(t,) for (t, _) in elems], [(t,) for (t, _) in elems] + ([(sterm[0],)] if sterm else []))]
                if any(g > D + 1e-9 for g in gaps):
                    bad("timeout-missed", f"a gap of {max(gaps)} > {D} passed without the timeout firing")
        elif op in ("take_with_time", "skip_with_time"):
            take = op == "take_with_time"
            for (t, v) in elems:
                inside = t < D - 1e-9
                after = t > D + 1e-9
                if (take and inside or not take and after) and v not in vals:
                    bad("element-lost", f"{v}@{t} must pass")
                if (take and after or not take and inside) and v in vals:
                    bad("element-leaked", f"{v}@{t} must be dropped")
            if not subseq:
                bad("not-a-subsequence", "order/duplicates")
            if sterm and sterm[1] == "C":
                want = min(D, sterm[0]) if take else sterm[0]
                if ended != "C" or abs(ended_t - want) > 1e-9:
                    bad("completion-instant", f"expected completion at {want}")
        elif op in ("delay", "delay_with_mapper"):
            exp = [(round(t + D, 6), "N", v) for (t, v) in elems]
            if sterm and sterm[1] == "C":
                # delay: completion d later; delay_with_mapper: completion once the source completed and every pending delay fired
                exp.append((round((sterm[0] + D) if op == "delay" else max([sterm[0]] + [t + D for (t, _) in elems]), 6), "C", None))
                if out != exp:
                    bad("wrong-output", f"expected {[(t, v if k == 'N' else k) for (t, k, v) in exp]}")
            elif sterm and sterm[1] == "E":
                if ended != "E" or abs(ended_t - sterm[0]) > 1e-9:
                    bad("error-not-immediate", "an error is delivered immediately")
                if [o for o in out if o[1] == "N"] != [e for e in exp if e[0] < sterm[0] - 1e-9 or (abs(e[0] - sterm[0]) < 1e-9 and e in out)]:
                    bad("wrong-output", "elements due before the error must be delivered at their instants, later ones dropped")
        elif op == "delay_subscription":
            # subscription at D: elements pushed strictly before are missed (hot source), strictly after pass
            for (t, v) in elems:
                if t > D + 1e-9 and v not in vals:
                    bad("element-lost", f"{v}@{t} arrived after the delayed subscription")
                if t < D - 1e-9 and v in vals:
                    bad("element-leaked", f"{v}@{t} arrived before the delayed subscription")
            if not subseq:
                bad("not-a-subsequence", "order/duplicates")
        return P[:4]


def plan(tier):
    """(op, scheduler kind, program) triples; quick keeps one racing program per operator"""
    q = {
        "debounce": [("timeout", "tie"), ("timeout", "tie3")],
        "throttle_with_mapper": [("timeout", "tie")],
        "sample": [("timeout", "tie")],
        "timeout": [("timeout", "tie2"), ("eventloop", "tieC")],
        "timeout_other": [("timeout", "tie2")],
        "timeout_with_mapper": [("timeout", "tie2")],
        "take_with_time": [("timeout", "tie")],
        "skip_with_time": [("timeout", "tie")],
        "delay": [("timeout", "tie")],
        "delay_with_mapper": [("timeout", "tieC")],
        "delay_subscription": [("timeout", "tie")],
    }
    if tier == "quick":
        return [(op, s, p) for op, l in q.items() for (s, p) in l]
    return [(op, s, p) for op in FOCUS for s in ("timeout", "eventloop") for p in PROGRAMS]


def harnesses(tier, prop):
    return [H(op, s, p) for (op, s, p) in plan(tier) if op in PROPERTY_OF[prop]]


def PB_of(tier):
    return 1


def shard(part, shard_i, nshards, tier, seed, deadline, prop):
    ilv.install()
    for i, h in enumerate(harnesses(tier, prop)):
        if (i + seed) % nshards == shard_i:
            ilvrun.explore_all(part, [h], 0, 1, PB_of(tier), 0, deadline, horizon=6 * D, coarse_pb=2 if (prop != "C17" or (tier != "quick" and h.prog in ("tie", "tie2", "tieC"))) else None)


def run_part(ctx, prop):
    before = ctx.total.counters.get("executions", 0)
    hs = harnesses(ctx.tier, prop)
    ctx.sharded(shard, extra=(prop,), nshards=len(hs), deadline=ctx.sub_deadline(0.5))
    ex = ctx.total.counters.get("executions", 0) - before
    ctx.cov["e3_threads"] = {"schedules_explored": ex, "coarse_executions": ctx.total.counters.get("coarse_executions", 0), "schedule_points": ctx.total.counters.get("schedule_points", 0), "PB": PB_of(ctx.tier),
                             "harnesses": [h.name for h in hs]}
    ctx.assumptions = list(ctx.assumptions) + [
        "E3 part: real-time scheduler (TimeoutScheduler / EventLoopScheduler) on the controlled clock, the source on its own controlled thread; "
        "preemption at sync operations and line boundaries of the operator's file; a timer and a source notification due in the same instant may "
        "be served in either order, only outcomes that neither order allows are reported"
    ]


def replay(prop, case):
    ilv.install()
    for tier in ("quick", "thorough"):
        for h in harnesses(tier, prop):
            if h.name == case["harness"]:
                return ilvrun.replay_harness(h, case)
    return []
