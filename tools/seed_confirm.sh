#!/bin/bash
# usage: [WT=/tmp/seed4_<PROP> AS=<k>] tools/seed_confirm.sh <PROP> <N> <tier> <CHECK>...
# (WT: scratch worktree if not /tmp/seed_<PROP>; AS: store as /verif/seeded/<PROP>-<k> instead of <PROP>-<N>)
# Confirms seeded change N of /tmp/seed_<PROP>/_out in that scratch worktree (suite passes with it, demo fails with / passes without),
# stores it under /verif/seeded/<PROP>-<N>/ and runs the named checks against a scratch copy with the change.
P="$1"; N="$2"; TIER="$3"; shift 3
WT=${WT:-/tmp/seed_$P}; OUT=$WT/_out; AS=${AS:-$N}; D=/verif/seeded/$P-$AS
[ -f "$OUT/change$N.diff" ] || { echo "no change$N.diff"; exit 2; }
git -C $WT checkout -q -- reactivex
( cd $WT && PYTHONPATH=$WT timeout 600 /venv/bin/python _out/demo$N.py >/dev/null 2>&1 ); base=$?
git -C $WT apply "$OUT/change$N.diff" || { echo "diff does not apply"; exit 3; }
( cd $WT && PYTHONPATH=$WT timeout 600 /venv/bin/python _out/demo$N.py >/dev/null 2>&1 ); mut=$?
suite=$(cd $WT && PYTHONPATH=$WT /venv/bin/python -m pytest -q -p no:cacheprovider --timeout=900 2>&1 | tail -1)
git -C $WT checkout -q -- reactivex
echo "demo exit unchanged=$base changed=$mut ; suite with change: $suite"
mkdir -p $D; cp "$OUT/change$N.diff" $D/patch.diff; cp "$OUT/demo$N.py" $D/demo.py; cp "$OUT/notes.md" $D/notes.md 2>/dev/null
res=""
for c in "$@"; do
  o=$(SHOW=6 /verif/tools/mutant_run.sh $D/patch.diff $TIER $c 2>&1)
  echo "$o" | grep -v "^KNOWN-FINDING" | grep -E "^VIOLATION|signature=|tier=|PATCH FAILED|HARNESS" | head -6
  if echo "$o" | grep -q "^VIOLATION"; then res="$res $c:caught"; else res="$res $c:missed"; fi
done
/venv/bin/python - "$P" "$AS" "$base" "$mut" "$suite" "$res" "$TIER" <<'PY'
import json,sys
P,N,base,mut,suite,res,tier=sys.argv[1:]
d=f"/verif/seeded/{P}-{N}"
json.dump({"property":P,"change":int(N),"demo_exit_unchanged":int(base),"demo_exit_changed":int(mut),"repo_suite_with_change":suite,
 "checks_run":{k:v for k,v in (x.split(':') for x in res.split())},"tier":tier,
 "how":"tools/seed_confirm.sh: demo run in the scratch worktree with and without patch.diff; repository suite run there with the patch; checks run via tools/mutant_run.sh against a scratch copy of /repo with the patch",
 "needs":"see notes.md (written by the independent sub-agent that produced the change)"}, open(d+"/meta.json","w"), indent=1)
PY
echo "RESULT $P-$AS:$res"
