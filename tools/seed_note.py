#!/venv/bin/python
"""usage: tools/seed_note.py <ID> <CHECK>:<caught|missed> "<note>" — records a later (re-)evaluation of a seeded change in its meta.json"""
import json, sys
d = f"/verif/seeded/{sys.argv[1]}/meta.json"
m = json.load(open(d))
k, v = sys.argv[2].split(":")
m.setdefault("history", []).append({"first_result": dict(m["checks_run"]), "note": sys.argv[3]})
m["checks_run"][k] = v
json.dump(m, open(d, "w"), indent=1)
print(m["checks_run"])
