#!/bin/bash
# usage: tools/run_all.sh <tier> [ids...]  — runs the checks one after the other, one summary line each
cd "$(dirname "$(readlink -f "$0")")/.." || exit 2
tier="${1:-quick}"; shift
ids="$@"; [ -z "$ids" ] && ids=$(/venv/bin/python -c "import json;print(' '.join(c['property_id'] for c in json.load(open('MANIFEST.json'))['checks']))")
for c in $ids; do
  s=$(date +%s)
  out=$(./check $c --tier $tier 2>&1); rc=$?
  echo "rc=$rc $(echo "$out" | grep -E "^C[0-9]+ tier=" | tail -1) total=$(( $(date +%s) - s ))s"
  echo "$out" | grep -E "^VIOLATION|^HARNESS|signature=" | head -6
done
