#!/venv/bin/python
"""Regenerates /verif/MANIFEST.json from vf/registry.py and validates it."""
import json, os, subprocess, sys
sys.path.insert(0, os.path.dirname(os.path.dirname(os.path.abspath(__file__))))
from vf import registry, core
core.bind_repo()
import importlib

V = os.path.dirname(os.path.dirname(os.path.abspath(__file__)))
props = [json.loads(l)["id"] for l in open(os.path.join(V, "properties.jsonl"))]
checks, na = [], []
for pid in props:
    r = None
    if pid not in registry.READY:
        na.append({"property_id": pid, "reason": registry.NOT_CLAIMED.get(pid, "check under construction/review in this revision of /verif (planned: see DESIGN.md section 5); not claimed until reviewed on the unchanged tree")}); continue
    if os.path.exists(os.path.join(V, "vf", "checks", pid.lower() + ".py")):
        r = getattr(importlib.import_module("vf.checks." + pid.lower()), "META", None)
    if r is not None and not r.get("claimed", True):
        na.append({"property_id": pid, "reason": r["reason"]}); continue
    if r is None:
        na.append({"property_id": pid, "reason": registry.NOT_CLAIMED.get(pid, "check not built yet in this revision of /verif (planned: see DESIGN.md section 5)")})
        continue
    checks.append({
        "property_id": pid,
        "quick_cmd": f"./check {pid} --tier quick",
        "thorough_cmd": f"./check {pid} --tier thorough",
        "evidence_file": f"/verif/evidence/{pid}.json",
        "replay_cmd_template": f"./check {pid} --replay {{path}}",
        "engine": r["engine"],
        "level_claimed": {"category": importlib.import_module("vf.checks." + pid.lower()).LEVEL, "text": r["text"], "design_ref": r.get("design_ref", f"DESIGN.md section 5, {pid}")},
        "level_note": r["note"],
        "technique": r["technique"],
    })
m = {
    "version": 1,
    "setup_cmd": "./setup.sh",
    "hooks": {
        "guard": "REACTIVEX_RXPY_VERIF",
        "enable": "no source hooks are used: the checks import reactivex from /repo's working tree in a fresh process and patch threading/clock from outside (the ./check runner exports REACTIVEX_RXPY_VERIF=1 only for completeness)",
        "baseline_off_cmd": "cd /repo && env -u REACTIVEX_RXPY_VERIF /venv/bin/python -m pytest -ra -q -p no:cacheprovider --timeout=900 --continue-on-collection-errors",
        "source_commits": registry.HOOK_COMMITS,
        "add_only": True,
    },
    "engines": [dict(e, serves_properties=[c["property_id"] for c in checks if c["engine"] == e["name"]]) for e in registry.ENGINES],
    "checks": checks,
    "notes": registry.NOTES,
    "not_applicable": na,
}
json.dump(m, open(os.path.join(V, "MANIFEST.json"), "w"), indent=1)
code = "import json,jsonschema;jsonschema.validate(json.load(open('%s/MANIFEST.json')), json.load(open('/root/.vp/MANIFEST.schema.json')))" % V
r = subprocess.run(["python3-vt", "-c", code], capture_output=True, text=True)
print("MANIFEST.json:", len(checks), "claimed,", len(na), "not claimed; schema", "OK" if r.returncode == 0 else "FAILED\n" + r.stderr[-800:])
sys.exit(r.returncode)
