#!/venv/bin/python
"""Regenerates the tables between the GENERATED markers of DESIGN.md from MANIFEST.json, evidence/*.json,
known_findings.json and seeded/*/meta.json (so the document cannot drift from what the machinery reports)."""
import glob, json, os, re, subprocess
V = os.path.dirname(os.path.dirname(os.path.abspath(__file__)))
os.chdir(V)
m = json.load(open("MANIFEST.json"))
out = []
out.append("### G.1 Checks as built (numbers from the committed evidence files, quick tier unless stated)\n")
out.append("| Id | Engine | Level | Tier | Evaluations | Distinct non-trivial | Distinct outcomes | States | Exhaustive | Wall s |")
out.append("|---|---|---|---|---|---|---|---|---|---|")
for c in m["checks"]:
    pid = c["property_id"]
    try:
        e = json.load(open(f"evidence/{pid}.json"))
    except Exception:
        continue
    cv = e["coverage"]
    out.append(f"| {pid} | {c['engine']} | {e['level']} | {e['tier']} | {cv.get('evaluations')} | {cv.get('distinct_nontrivial')} | {cv.get('distinct_outcomes')} | {cv.get('states','')} | {cv.get('exhaustive')} | {e['wall_s']:.0f} |")
out.append("")
f = json.load(open("known_findings.json"))["findings"]
log = subprocess.check_output(["git", "-C", "/repo", "log", "--format=%h %s"], text=True).splitlines()
subj = {l.split()[0]: l.split(" ", 1)[1] for l in log}
out.append("### G.2 Genuine defects repaired in ReactiveX/RxPY (`fix:` commits; each recorded as `fixed` in known_findings.json)\n")
out.append("| Commit | Properties whose check reported it | Signatures | Repair (commit subject) |")
out.append("|---|---|---|---|")
bycommit = {}
for e in f:
    if e["kind"] == "fixed":
        bycommit.setdefault(e["commit"], []).append(e)
order = [l.split()[0] for l in reversed(log)]
for c in order:
    if c in bycommit:
        es = bycommit[c]
        props = ", ".join(sorted({e["property"] for e in es}))
        sigs = "; ".join(f"`{e['signature']}`" for e in es[:3]) + (f" (+{len(es)-3} more)" if len(es) > 3 else "")
        out.append(f"| {c} | {props} | {sigs} | {subj.get(c, '?')} |")
unl = [c for c in order if c not in bycommit and subj[c].startswith("fix:")]
out.append("")
if unl:
    out.append("Fix commits without their own findings entry (the same defect is listed under the commit above or the check that found it reports it under a sibling signature): " + ", ".join(f"{c} ({subj[c][5:60]}…)" for c in unl) + "\n")
out.append("### G.3 Known findings (genuine, not repaired; reported as KNOWN-FINDING, never as VIOLATION)\n")
out.append("| Property | Signature | What fails |")
out.append("|---|---|---|")
for e in f:
    if e["kind"] == "known":
        out.append(f"| {e['property']} | `{e['signature']}` | {e['what'][:260]} |")
out.append("")
out.append("### G.4 Independently seeded changes (sub-agents given only the property text) and the checks that catch them\n")
out.append("| Seed | Repo suite with the change | Demo exit unchanged/changed | Result per check | Note |")
out.append("|---|---|---|---|---|")
for p in sorted(glob.glob("seeded/*/meta.json")):
    s = json.load(open(p))
    note = "; ".join(h["note"] for h in s.get("history", []))[:400]
    res = ", ".join(f"{k}: {v}" for k, v in s["checks_run"].items())
    out.append(f"| {os.path.basename(os.path.dirname(p))} | {s['repo_suite_with_change'][:24]} | {s['demo_exit_unchanged']}/{s['demo_exit_changed']} | {res} | {note} |")
out.append("")
txt = open("DESIGN.md").read()
a, b = "<!-- BEGIN GENERATED -->", "<!-- END GENERATED -->"
assert a in txt and b in txt
txt = txt[: txt.index(a) + len(a)] + "\n" + "\n".join(out) + "\n" + txt[txt.index(b):]
open("DESIGN.md", "w").write(txt)
print("DESIGN.md tables regenerated:", len(out), "lines")
