#!/bin/bash
# usage: tools/mutant_run.sh <patch.diff> <tier> <CHECK>...   — applies the patch to a scratch copy of /repo
# (outside /repo and /verif), optionally runs the repo's own tests (RUN_TESTS=1), runs the checks against it, removes the copy.
patch="$(readlink -f "$1")"; tier="$2"; shift 2
scratch="$(mktemp -d /tmp/mut.XXXXXX)"
trap 'rm -rf "$scratch"' EXIT
rsync -a --exclude .git --exclude '__pycache__' /repo/ "$scratch/repo/"
( cd "$scratch/repo" && patch -p1 -s < "$patch" ) || { echo "PATCH FAILED"; exit 3; }
if [ -n "$RUN_TESTS" ]; then ( cd "$scratch/repo" && PYTHONPATH="$scratch/repo" /venv/bin/python -m pytest -q -p no:cacheprovider -x --timeout=900 2>&1 | tail -2 ); fi
mkdir -p "$scratch/out"
rc=0
for c in "$@"; do
  VERIF_REPO_ROOT="$scratch/repo" VERIF_OUT="$scratch/out" /verif/check "$c" --tier "$tier" 2>&1 | grep -v "^KNOWN-FINDING" | grep -E "^VIOLATION|^  signature=|HARNESS|tier=" | head -${SHOW:-8}
done
