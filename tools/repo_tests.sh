#!/bin/bash
# Runs the repository's pinned suite (guard OFF) on /repo (or $1); prints the summary line.
cd "${1:-/repo}" && env -u REACTIVEX_RXPY_VERIF /venv/bin/python -m pytest -q -p no:cacheprovider --timeout=900 --continue-on-collection-errors 2>&1 | tail -3
